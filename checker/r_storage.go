package main

import (
	"fmt"
	"go/token"
	"go/types"
	"sort"
	"strings"

	"golang.org/x/tools/go/ssa"
)

// S-STORAGE: the frozen classification of the storage interfaces.
var storageReaders = map[string]bool{"Storage.Get": true, "Storage.Cursor": true, "Cursor.Seek": true, "Cursor.Next": true}
var storageMutators = map[string]bool{"Storage.Put": true, "Storage.BatchPut": true, "Storage.Delete": true, "Storage.BatchDelete": true}

type storSite struct {
	Fn     *ssa.Function
	Instr  ssa.Instruction
	Method string // "Storage.Put"
	Mut    bool
}

type storModel struct {
	Sites  []*storSite
	ByFn   map[*ssa.Function][]*storSite
	SR     map[*ssa.Function]bool // functions that may transitively reach a site
	Errors []string
}

// storage builds M-STOR for the currently selected call graph.
func (p *Prog) storage() *storModel {
	if p.stor != nil {
		return p.stor
	}
	m := &storModel{ByFn: map[*ssa.Function][]*storSite{}, SR: map[*ssa.Function]bool{}}
	p.stor = m
	for _, in := range []string{"Storage", "Cursor"} {
		if p.Iface(in) == nil {
			m.Errors = append(m.Errors, "interface "+in+" not found")
			return m
		}
	}
	// S-STORAGE method sets must match exactly.
	want := map[string][]string{"Storage": {"BatchDelete", "BatchPut", "Cursor", "Delete", "Get", "Put"}, "Cursor": {"Next", "Seek"}}
	for in, ms := range want {
		it := p.Iface(in)
		var got []string
		for i := 0; i < it.NumMethods(); i++ {
			got = append(got, it.Method(i).Name())
		}
		sort.Strings(got)
		if strings.Join(got, ",") != strings.Join(ms, ",") {
			m.Errors = append(m.Errors, fmt.Sprintf("interface %s has methods %v, the frozen classification S-STORAGE knows %v", in, got, ms))
		}
	}
	isStorIface := func(t types.Type) string {
		n, ok := t.(*types.Named)
		if !ok || n.Obj().Pkg() != p.Types {
			return ""
		}
		if n.Obj().Name() == "Storage" || n.Obj().Name() == "Cursor" {
			return n.Obj().Name()
		}
		return ""
	}
	for _, fn := range p.Funcs {
		allInstrs(fn, func(in ssa.Instruction) {
			// direct invoke
			if c, ok := in.(ssa.CallInstruction); ok {
				cc := c.Common()
				if cc.IsInvoke() {
					if in := isStorIface(cc.Value.Type()); in != "" {
						nm := in + "." + cc.Method.Name()
						s := &storSite{Fn: fn, Instr: c, Method: nm, Mut: storageMutators[nm]}
						m.Sites = append(m.Sites, s)
						m.ByFn[fn] = append(m.ByFn[fn], s)
					}
				}
			}
			// bound method value taken from a storage interface: s.Put used as a func value
			if mc, ok := in.(*ssa.MakeClosure); ok {
				if f, ok := mc.Fn.(*ssa.Function); ok && strings.HasSuffix(f.Name(), "$bound") && len(mc.Bindings) == 1 {
					if in := isStorIface(mc.Bindings[0].Type()); in != "" {
						nm := in + "." + strings.TrimSuffix(f.Name(), "$bound")
						s := &storSite{Fn: fn, Instr: mc, Method: nm, Mut: storageMutators[nm]}
						m.Sites = append(m.Sites, s)
						m.ByFn[fn] = append(m.ByFn[fn], s)
					}
				}
			}
		})
	}
	// SR: reverse reachability over the call graph
	g := p.CG()
	var work []*ssa.Function
	for fn := range m.ByFn {
		m.SR[fn] = true
		work = append(work, fn)
	}
	for len(work) > 0 {
		f := work[len(work)-1]
		work = work[:len(work)-1]
		if n := g.Nodes[f]; n != nil {
			for _, e := range n.In {
				c := e.Caller.Func
				if !m.SR[c] {
					m.SR[c] = true
					work = append(work, c)
				}
			}
		}
		// a closure reaching storage makes its creator storage-reaching
		if par := f.Parent(); par != nil && !m.SR[par] {
			m.SR[par] = true
			work = append(work, par)
		}
	}
	return m
}

func (m *storModel) siteOf(in ssa.Instruction) *storSite {
	for _, s := range m.ByFn[in.Parent()] {
		if s.Instr == in {
			return s
		}
	}
	return nil
}

// callReachesStorage: the call instruction is a storage site or may call an SR function.
func (p *Prog) callReachesStorage(c ssa.CallInstruction) bool {
	m := p.storage()
	if m.siteOf(c) != nil {
		return true
	}
	for _, f := range p.Callees(c) {
		if m.SR[f] {
			return true
		}
	}
	return false
}

var graphDependent = map[string]bool{
	"ERRPROP": true, "MUTSITE": true, "PARSEFIRST": true, "GLOBALS": true, "EXECONCE": true,
	"ROWCACHE": true, "TWINPRIM": true, "PRIMWIRE": true, "FILTERED": true, "PLANMAP": true,
	"NOREADAFTEREXIT": true, "EVALFIRST": true, "WRITEONCE": true,
}

func init() {
	register("NOREFLECT", "side condition of every call-graph rule: the package does not import unsafe, starts no goroutine, and uses reflect only to read values (no Call/Method*/Set*)", ruleNoReflect)
	register("MSTOR", "model M-STOR: every Storage/Cursor invoke site, classified reader/mutator by the frozen table S-STORAGE; each of the 8 methods has >= 1 site", ruleMStor)
	register("ERRPROP", "every call that may reach a storage operation and returns an error has that error (O1) extracted, (O2) examined or forwarded on every path, (O3) returned (itself or a value derived from it) on every path from the failure edge with no normal return, no loop continuation, and (O4) no further storage-reaching call on the failure path", ruleErrProp)
	register("MUTSITE", "(a) mutating storage sites lie only in methods of FinalPlan implementors (writer types); (b) the RTA closure of the SELECT plan builder plus all methods of every plan type it can build contains no mutating site and no writer type; (c) plan building (BuildPlan, Init) contains no mutating site; (d) parsing/checking/validation reaches no storage site at all; (e) each plan type's sites are confined to its class", ruleMutSite)
	register("PARSEFIRST", "in every function that both parses (reaches Parser.Parse) and reaches storage, each storage-reaching call is dominated by the nil edge of the error test on the parse/validate result", ruleParseFirst)
}

func ruleNoReflect(p *Prog, r *Result) {
	for _, imp := range p.Types.Imports() {
		if imp.Path() == "unsafe" {
			r.hit("import|unsafe", "", "package imports unsafe: call graph and effect rules are unsound")
		}
	}
	n := 0
	for _, fn := range p.Funcs {
		allInstrs(fn, func(in ssa.Instruction) {
			if _, ok := in.(*ssa.Go); ok {
				r.hit("go|"+p.FName(fn), p.InstrPos(in), "library starts a goroutine")
			}
			c, ok := in.(ssa.CallInstruction)
			if !ok {
				return
			}
			f := c.Common().StaticCallee()
			if f == nil || f.Pkg == nil || f.Pkg.Pkg.Path() != "reflect" {
				return
			}
			n++
			nm := f.Name()
			bad := nm == "Call" || nm == "CallSlice" || strings.HasPrefix(nm, "Method") || strings.HasPrefix(nm, "Set") || nm == "MakeFunc" || nm == "NewAt"
			r.add(!bad, "reflect|"+p.FName(fn)+"|"+nm, p.InstrPos(in), "reflect."+nm)
		})
	}
	r.ok("import|no-unsafe", "", "unsafe not imported")
	r.note("reflect_calls", n)
}

func ruleMStor(p *Prog, r *Result) {
	m := p.storage()
	for _, e := range m.Errors {
		r.undecided("%s", e)
	}
	per := map[string]int{}
	var list []string
	for _, s := range m.Sites {
		per[s.Method]++
		list = append(list, fmt.Sprintf("%s in %s at %s", s.Method, p.FName(s.Fn), p.InstrPos(s.Instr)))
	}
	sort.Strings(list)
	for k := range storageReaders {
		r.floor("sites of "+k, per[k], 1)
	}
	for k := range storageMutators {
		r.floor("sites of "+k, per[k], 1)
	}
	r.note("sites", list)
	r.note("storage_reaching_functions", p.funcNames(m.SR, true))
}

// ---------------- ERRPROP ----------------

func errResultIndex(sig *types.Signature) int {
	n := sig.Results().Len()
	if n == 0 {
		return -1
	}
	if isErrorType(sig.Results().At(n - 1).Type()) {
		return n - 1
	}
	return -1
}

// errValueOf returns the SSA value holding the error result of call c (nil if discarded).
func errValueOf(c *ssa.Call) ssa.Value {
	sig := c.Call.Signature()
	idx := errResultIndex(sig)
	if idx < 0 {
		return nil
	}
	if sig.Results().Len() == 1 {
		if c.Referrers() == nil || len(*c.Referrers()) == 0 {
			return nil
		}
		return c
	}
	for _, ref := range *c.Referrers() {
		if ex, ok := ref.(*ssa.Extract); ok && ex.Index == idx {
			return ex
		}
	}
	return nil
}

// nilTest: if block b ends in If on (d ==/!= nil) for d in set, returns the successor
// index of the non-nil (failure) edge.
func nilTestOn(b *ssa.BasicBlock, set map[ssa.Value]bool) (failIdx int, tested ssa.Value, ok bool) {
	f := ifOf(b)
	if f == nil {
		return 0, nil, false
	}
	a, okA := condAtom(f.Cond, true)
	if !okA || (a.Op != token.EQL && a.Op != token.NEQ) {
		return 0, nil, false
	}
	var d ssa.Value
	if set[a.X] && isNilConst(a.Y) {
		d = a.X
	} else if set[a.Y] && isNilConst(a.X) {
		d = a.Y
	} else {
		return 0, nil, false
	}
	if a.Op == token.NEQ { // true edge = non-nil
		return 0, d, true
	}
	return 1, d, true
}

func ruleErrProp(p *Prog, r *Result) {
	m := p.storage()
	for _, e := range m.Errors {
		r.undecided("%s", e)
	}
	perFn := map[string]int{}
	for _, fn := range p.Funcs {
		if !m.SR[fn] {
			continue
		}
		ordinal := map[string]int{}
		allInstrs(fn, func(in ssa.Instruction) {
			ci, ok := in.(ssa.CallInstruction)
			if !ok {
				return
			}
			if !p.callReachesStorage(ci) {
				return
			}
			sig := ci.Common().Signature()
			if errResultIndex(sig) < 0 {
				return
			}
			cname := callDesc(p, ci)
			ordinal[cname]++
			key := fmt.Sprintf("%s|%s#%d", p.FName(fn), cname, ordinal[cname])
			pos := p.InstrPos(in)
			perFn[p.FName(fn)]++
			c, isCall := in.(*ssa.Call)
			if !isCall {
				r.hit(key, pos, "storage-reaching call in defer/go statement: its error cannot be returned")
				return
			}
			ev := errValueOf(c)
			if ev == nil {
				r.hit(key, pos, "O1: error result of storage-reaching call is discarded")
				return
			}
			if msg := checkErrFlow(p, fn, c, ev, p.callReachesStorage); msg != "" {
				r.hit(key, pos, msg)
				return
			}
			r.ok(key, pos, "error examined/forwarded on every path; failure paths return it")
		})
	}
	r.note("obligations_per_function", perFn)
	// floors: every plan type's Next and Batch that reaches storage has >= 1 obligation
	for _, in := range []string{"Plan", "FinalPlan"} {
		it := p.Iface(in)
		if it == nil {
			r.undecided("interface %s not found", in)
			continue
		}
		for _, t := range p.Implementors(it) {
			for _, mn := range []string{"Next", "Batch", "Init"} {
				f := p.Method(t, mn)
				if f != nil && m.SR[f] && perFn[p.FName(f)] == 0 {
					r.undecided("floor: %s reaches storage but has no error obligation", p.FName(f))
				}
			}
		}
	}
	r.floor("ERRPROP obligations", len(r.Obs), 20)
}

func callDesc(p *Prog, ci ssa.CallInstruction) string {
	cc := ci.Common()
	if cc.IsInvoke() {
		return typeName(cc.Value.Type()) + "." + cc.Method.Name()
	}
	if f := cc.StaticCallee(); f != nil {
		return p.qualName(f)
	}
	return "dynamic:" + cc.Value.Type().String()
}

// checkErrFlow verifies O2..O4 for error value ev of call c in fn. Returns "" if fine.
func checkErrFlow(p *Prog, fn *ssa.Function, c *ssa.Call, ev ssa.Value, sensitive func(ssa.CallInstruction) bool) string {
	return checkErrFlowOpt(p, fn, c, ev, sensitive, false)
}

// checkErrFlowOpt: with allowConverted, a failure path may also return a fresh positioned error built
// by the package's own error constructors (the repo's conversion idiom) instead of the error itself.
func checkErrFlowOpt(p *Prog, fn *ssa.Function, c *ssa.Call, ev ssa.Value, sensitive func(ssa.CallInstruction) bool, allowConverted bool) string {
	if sensitive == nil {
		sensitive = func(ssa.CallInstruction) bool { return false }
	}
	D := forwardTaint(ev)
	errIdx := errResultIndex(fn.Signature)
	retCarries := func(ret *ssa.Return) bool {
		if errIdx < 0 || errIdx >= len(ret.Results) {
			return false
		}
		v := retVal(ret, errIdx)
		if D[v] {
			return true
		}
		if allowConverted {
			if cc, ok := v.(*ssa.Call); ok {
				if f := cc.Call.StaticCallee(); f != nil && p.InPkg(f) && (f.Name() == "NewExecuteError" || f.Name() == "NewSyntaxError") {
					return true
				}
			}
		}
		return false
	}
	if errIdx < 0 {
		return "O2: enclosing function has no error result to return the storage error through"
	}
	// Which tests to ignore: a nil test on value d in a block dominated by the nil edge of
	// another test on the same value (the redundant `x == nil && err == nil` idiom).
	type test struct {
		b    *ssa.BasicBlock
		fail int
		d    ssa.Value
	}
	var tests []test
	for _, b := range fn.Blocks {
		if fi, d, ok := nilTestOn(b, D); ok {
			tests = append(tests, test{b, fi, d})
		}
	}
	redundant := map[*ssa.BasicBlock]bool{}
	for _, t := range tests {
		for _, u := range tests {
			if u.b == t.b || u.d != t.d {
				continue
			}
			if edgeDominates(u.b, 1-u.fail, t.b) {
				redundant[t.b] = true
			}
		}
	}
	// O2: walk forward from the call; every path must hit a test on D or a return carrying D
	// before reaching any other return or coming back to the call.
	cb := c.Block()
	ci := instrIndex(c)
	type state struct {
		b    *ssa.BasicBlock
		from int
	}
	seen := map[*ssa.BasicBlock]bool{}
	var failEdges []state // (test block, failure successor index)
	var problem string
	var walk func(b *ssa.BasicBlock, from int)
	walk = func(b *ssa.BasicBlock, from int) {
		if problem != "" {
			return
		}
		if from == 0 {
			if b == cb {
				problem = "O2: a path returns to the call without examining its error (error overwritten in a loop)"
				return
			}
			if seen[b] {
				return
			}
			seen[b] = true
		}
		for i := from; i < len(b.Instrs); i++ {
			in := b.Instrs[i]
			if oc, ok := in.(ssa.CallInstruction); ok && oc != ssa.CallInstruction(c) && sensitive(oc) {
				// another storage-reaching call before the error was examined
				// (allowed only if the error is forwarded later - but then a failed call was followed by more storage work)
				problem = fmt.Sprintf("O4: storage-reaching call %s at %s is executed before the error is examined", callDesc(p, oc), p.InstrPos(in))
				return
			}
			if ret, ok := in.(*ssa.Return); ok {
				if !retCarries(ret) {
					problem = fmt.Sprintf("O2: return at %s is reached without examining the error and does not carry it", p.InstrPos(ret))
				}
				return
			}
			if _, ok := in.(*ssa.Panic); ok {
				problem = "O2: panic reached before the error is examined"
				return
			}
		}
		if fi, _, ok := nilTestOn(b, D); ok && !redundant[b] {
			failEdges = append(failEdges, state{b, fi})
			return // tested on this path
		}
		for _, s := range b.Succs {
			walk(s, 0)
		}
	}
	walk(cb, ci+1)
	if problem != "" {
		return problem
	}
	// O3/O4: from every failure edge, every path must end in a return carrying D, with no
	// storage-reaching call and without re-entering the call's block.
	for _, fe := range failEdges {
		start := fe.b.Succs[fe.from]
		vis := map[*ssa.BasicBlock]bool{}
		var dfs func(b *ssa.BasicBlock) string
		dfs = func(b *ssa.BasicBlock) string {
			if b == cb {
				return fmt.Sprintf("O3: the failure path of the test at %s loops back to the call (error swallowed, iteration continues)", p.InstrPos(fe.b.Instrs[len(fe.b.Instrs)-1]))
			}
			if vis[b] {
				return ""
			}
			vis[b] = true
			for _, in := range b.Instrs {
				if oc, ok := in.(ssa.CallInstruction); ok && sensitive(oc) {
					return fmt.Sprintf("O4: storage-reaching call %s at %s on the failure path", callDesc(p, oc), p.InstrPos(in))
				}
				if ret, ok := in.(*ssa.Return); ok {
					if !retCarries(ret) {
						return fmt.Sprintf("O3: failure path reaches return at %s whose error operand is not derived from the storage error", p.InstrPos(ret))
					}
					return ""
				}
				if _, ok := in.(*ssa.Panic); ok {
					return fmt.Sprintf("O3: failure path panics at %s", p.InstrPos(in))
				}
			}
			// a nested test on the same error value: only its failure side continues the failure path
			if fi, _, ok := nilTestOn(b, D); ok {
				return dfs(b.Succs[fi])
			}
			for _, s := range b.Succs {
				if msg := dfs(s); msg != "" {
					return msg
				}
			}
			return ""
		}
		if msg := dfs(start); msg != "" {
			return msg
		}
	}
	return ""
}

// ---------------- MUTSITE ----------------

func (p *Prog) planTypes() (plans, finals []*types.Named, err error) {
	pi, fi := p.Iface("Plan"), p.Iface("FinalPlan")
	if pi == nil || fi == nil {
		return nil, nil, fmt.Errorf("interfaces Plan/FinalPlan not found")
	}
	return p.Implementors(pi), p.Implementors(fi), nil
}

// methodsOf lists the SSA functions of all methods (declared in the package) of *T.
func (p *Prog) methodsOf(n *types.Named) []*ssa.Function {
	var out []*ssa.Function
	for i := 0; i < n.NumMethods(); i++ {
		if f := p.SSA.FuncValue(n.Method(i)); f != nil {
			out = append(out, f)
		}
	}
	return out
}

// rtaClosure is a rapid-type-analysis reachability written for this checker (the library
// RTA treats every exported method of a runtime type as reachable "via reflection", which
// would make Next/Batch reachable from plan construction; NOREFLECT asserts no such
// reflection exists). Invokes resolve to the methods of concrete types converted to an
// interface (MakeInterface) in reachable code; dynamic calls of function values use the
// CHA edges. With addPlanMethods, all methods of every plan type instantiated so far
// become roots (the caller will drive whatever plan was built), to a fixpoint.
func (p *Prog) rtaClosure(roots []*ssa.Function, addPlanMethods bool) (reach map[*ssa.Function]bool, planTypes []string, rounds int) {
	plans, finals, _ := p.planTypes()
	isPlanType := map[*types.Named]bool{}
	for _, t := range append(append([]*types.Named{}, plans...), finals...) {
		isPlanType[t] = true
	}
	reach = map[*ssa.Function]bool{}
	inst := map[types.Type]bool{}
	var instList []types.Type
	type inv struct {
		iface  *types.Interface
		method *types.Func
	}
	var invokes []inv
	seenInv := map[string]bool{}
	var work []*ssa.Function
	addFn := func(f *ssa.Function) {
		if f != nil && !reach[f] {
			reach[f] = true
			work = append(work, f)
		}
	}
	resolve := func(t types.Type, iv inv) {
		if !types.Implements(t, iv.iface) {
			return
		}
		sel := p.SSA.MethodSets.MethodSet(t).Lookup(iv.method.Pkg(), iv.method.Name())
		if sel != nil {
			addFn(p.SSA.MethodValue(sel))
		}
	}
	found := map[string]bool{}
	addType := func(t types.Type) {
		if inst[t] {
			return
		}
		if _, isI := t.Underlying().(*types.Interface); isI {
			return
		}
		inst[t] = true
		instList = append(instList, t)
		for _, iv := range invokes {
			resolve(t, iv)
		}
		if n := namedOf(t); n != nil && isPlanType[n] && !found[n.Obj().Name()] {
			found[n.Obj().Name()] = true
			if addPlanMethods {
				for _, mf := range p.methodsOf(n) {
					addFn(mf)
				}
			}
		}
	}
	for _, f := range roots {
		addFn(f)
	}
	cha := p.CHA()
	for len(work) > 0 {
		rounds++
		f := work[len(work)-1]
		work = work[:len(work)-1]
		for _, af := range f.AnonFuncs {
			addFn(af)
		}
		if f.Blocks == nil {
			continue
		}
		allInstrs(f, func(in ssa.Instruction) {
			if mi, ok := in.(*ssa.MakeInterface); ok {
				addType(mi.X.Type())
			}
			ci, ok := in.(ssa.CallInstruction)
			if !ok {
				return
			}
			cc := ci.Common()
			if cc.IsInvoke() {
				it, _ := cc.Value.Type().Underlying().(*types.Interface)
				if it == nil {
					return
				}
				k := cc.Value.Type().String() + "." + cc.Method.Name()
				iv := inv{it, cc.Method}
				if !seenInv[k] {
					seenInv[k] = true
					invokes = append(invokes, iv)
				}
				for _, t := range instList {
					resolve(t, iv)
				}
				return
			}
			if sc := cc.StaticCallee(); sc != nil {
				addFn(sc)
				return
			}
			if n := cha.Nodes[f]; n != nil {
				for _, e := range n.Out {
					if e.Site == ci {
						addFn(e.Callee.Func)
					}
				}
			}
		})
	}
	for k := range found {
		planTypes = append(planTypes, k)
	}
	sort.Strings(planTypes)
	return
}

func ruleMutSite(p *Prog, r *Result) {
	m := p.storage()
	for _, e := range m.Errors {
		r.undecided("%s", e)
	}
	plans, finals, err := p.planTypes()
	if err != nil {
		r.undecided("%v", err)
		return
	}
	isFinal := map[*types.Named]bool{}
	for _, t := range finals {
		isFinal[t] = true
	}
	isPlan := map[*types.Named]bool{}
	for _, t := range plans {
		isPlan[t] = true
	}
	recvNamed := func(fn *ssa.Function) *types.Named {
		for fn.Parent() != nil {
			fn = fn.Parent()
		}
		if fn.Signature.Recv() == nil {
			return nil
		}
		return namedOf(fn.Signature.Recv().Type())
	}
	// (a) writer types
	writers := map[*types.Named]bool{}
	nMut := 0
	for _, s := range m.Sites {
		if !s.Mut {
			continue
		}
		nMut++
		t := recvNamed(s.Fn)
		key := fmt.Sprintf("a|%s|%s", p.FName(s.Fn), s.Method)
		if t == nil || !isFinal[t] {
			r.hit(key, p.InstrPos(s.Instr), "mutating storage call outside a FinalPlan implementor")
			continue
		}
		writers[t] = true
		r.ok(key, p.InstrPos(s.Instr), "mutating site inside writer plan "+t.Obj().Name())
	}
	r.floor("mutating sites", nMut, 4)
	var wn []string
	for t := range writers {
		wn = append(wn, t.Obj().Name())
	}
	sort.Strings(wn)
	r.note("writer_types", wn)

	// (b) SELECT closure
	sel := p.MethodByName("Optimizer", "buildSelectPlan")
	if sel == nil {
		// resolve structurally: the method of Optimizer taking a *SelectStmt and returning FinalPlan
		for _, f := range p.Funcs {
			if recvNamed(f) != nil && recvNamed(f).Obj().Name() == "Optimizer" && f.Signature.Params().Len() == 2 &&
				typeName(f.Signature.Params().At(1).Type()) == "SelectStmt" && f.Signature.Results().Len() == 2 && p.storage().SR[f] {
				sel = f
			}
		}
	}
	if sel == nil {
		r.undecided("anchor: SELECT plan builder ((*Optimizer).buildSelectPlan) not found")
	} else {
		reach, pts, rounds := p.rtaClosure([]*ssa.Function{sel}, true)
		r.note("select_closure_plan_types", pts)
		r.note("select_closure_rounds", rounds)
		n := 0
		for f := range reach {
			if p.InPkg(f) {
				n++
			}
		}
		r.note("select_closure_functions", n)
		r.floor("plan types in SELECT closure", len(pts), 5)
		bad := 0
		for _, s := range m.Sites {
			if s.Mut && reach[s.Fn] {
				bad++
				r.hit(fmt.Sprintf("b|%s|%s", p.FName(s.Fn), s.Method), p.InstrPos(s.Instr), "mutating storage call reachable from the SELECT plan (closure of "+p.FName(sel)+" + all methods of the plan types it builds)")
			}
		}
		for _, nm := range pts {
			for t := range writers {
				if t.Obj().Name() == nm {
					bad++
					r.hit("b|writer-type|"+nm, p.Pos(t.Obj().Pos()), "a writer plan type is instantiated in the SELECT closure")
				}
			}
		}
		if bad == 0 {
			r.ok("b|select-closure", p.Pos(sel.Pos()), fmt.Sprintf("no mutating site in %d functions / plan types %v", n, pts))
		}
	}

	// (c) planning never writes: BuildPlan closure with Init methods only.
	bp := p.MethodByName("Optimizer", "BuildPlan")
	if bp == nil {
		r.undecided("anchor: (*Optimizer).BuildPlan not found")
	} else {
		reach, _, _ := p.rtaClosure([]*ssa.Function{bp}, false)
		bad := 0
		for _, s := range m.Sites {
			if s.Mut && reach[s.Fn] {
				bad++
				r.hit(fmt.Sprintf("c|%s|%s", p.FName(s.Fn), s.Method), p.InstrPos(s.Instr), "mutating storage call reachable from BuildPlan (planning must not write)")
			}
		}
		if bad == 0 {
			r.ok("c|buildplan-closure", p.Pos(bp.Pos()), "no mutating site reachable while building/initialising any plan")
		}
	}

	// (d) parse/check/validate reach no storage at all (CHA/VTA reachability: coarser than RTA = safer)
	var roots []*ssa.Function
	for _, nm := range []string{"NewParser", "(*Parser).Parse", "NewLexer", "(*Lexer).Split"} {
		if f := p.Func(nm); f != nil {
			roots = append(roots, f)
		} else {
			r.undecided("anchor: %s not found", nm)
		}
	}
	if ei := p.Iface("Expression"); ei != nil {
		for _, t := range p.Implementors(ei) {
			for _, mn := range []string{"Check", "ReturnType", "String", "GetPos", "Walk"} {
				if f := p.Method(t, mn); f != nil {
					roots = append(roots, f)
				}
			}
		}
	} else {
		r.undecided("interface Expression not found")
	}
	for _, f := range p.Funcs {
		if strings.Contains(f.Name(), "Validate") || strings.Contains(f.Name(), "validate") {
			roots = append(roots, f)
		}
	}
	reach := p.Reach(roots, nil)
	bad := 0
	for _, s := range m.Sites {
		if reach[s.Fn] {
			bad++
			r.hit(fmt.Sprintf("d|%s|%s", p.FName(s.Fn), s.Method), p.InstrPos(s.Instr), "storage call reachable from parsing/checking/validation")
		}
	}
	if bad == 0 {
		r.ok("d|parse-check-closure", "", fmt.Sprintf("no storage site in %d functions reachable from parser, lexer, Check, Validate*", len(reach)))
	}
	r.note("parse_check_roots", len(roots))

	// (e) confinement per type
	allowed := map[string]map[string]bool{
		"PutPlan":         {"Storage.Put": true, "Storage.BatchPut": true},
		"RemovePlan":      {"Storage.Delete": true, "Storage.BatchDelete": true},
		"DeletePlan":      {"Storage.BatchDelete": true, "Storage.Delete": true},
		"MultiGetPlan":    {"Storage.Get": true},
		"EmptyResultPlan": {},
	}
	for tn, al := range allowed {
		n := p.Named(tn)
		if n == nil {
			r.undecided("anchor: plan type %s not found", tn)
			continue
		}
		okAll := true
		for _, mf := range p.methodsOf(n) {
			fs := append([]*ssa.Function{mf}, mf.AnonFuncs...)
			for _, f := range fs {
				for _, s := range m.ByFn[f] {
					if !al[s.Method] {
						okAll = false
						r.hit(fmt.Sprintf("e|%s|%s", p.FName(f), s.Method), p.InstrPos(s.Instr), fmt.Sprintf("%s may only call %v", tn, keysOf(al)))
					}
				}
			}
		}
		if okAll {
			r.ok("e|"+tn, p.Pos(n.Obj().Pos()), fmt.Sprintf("storage sites of %s confined to %v", tn, keysOf(al)))
		}
	}
	// every other plan type (scan/wrapper) holds reader sites only
	for _, t := range append(append([]*types.Named{}, plans...), finals...) {
		if writers[t] || allowed[t.Obj().Name()] != nil {
			continue
		}
		for _, mf := range p.methodsOf(t) {
			fs := append([]*ssa.Function{mf}, mf.AnonFuncs...)
			for _, f := range fs {
				for _, s := range m.ByFn[f] {
					if s.Mut {
						r.hit(fmt.Sprintf("e|%s|%s", p.FName(f), s.Method), p.InstrPos(s.Instr), "non-writer plan type holds a mutating site")
					}
				}
			}
		}
	}
}

func keysOf(m map[string]bool) []string {
	var ks []string
	for k := range m {
		ks = append(ks, k)
	}
	sort.Strings(ks)
	return ks
}

// ---------------- PARSEFIRST ----------------

func ruleParseFirst(p *Prog, r *Result) {
	m := p.storage()
	parse := p.Func("(*Parser).Parse")
	if parse == nil {
		r.undecided("anchor: (*Parser).Parse not found")
		return
	}
	// functions that reach Parse
	reachesParse := map[*ssa.Function]bool{parse: true}
	g := p.CG()
	work := []*ssa.Function{parse}
	for len(work) > 0 {
		f := work[len(work)-1]
		work = work[:len(work)-1]
		if n := g.Nodes[f]; n != nil {
			for _, e := range n.In {
				if !reachesParse[e.Caller.Func] {
					reachesParse[e.Caller.Func] = true
					work = append(work, e.Caller.Func)
				}
			}
		}
	}
	nf := 0
	for _, fn := range p.Funcs {
		if !reachesParse[fn] || !m.SR[fn] || fn == parse {
			continue
		}
		// parse calls of fn: static calls to functions reaching Parse
		var parseCalls []*ssa.Call
		var storCalls []ssa.CallInstruction
		allInstrs(fn, func(in ssa.Instruction) {
			ci, ok := in.(ssa.CallInstruction)
			if !ok {
				return
			}
			isParse := false
			for _, f := range p.Callees(ci) {
				if reachesParse[f] {
					isParse = true
				}
			}
			if isParse {
				if c, ok := in.(*ssa.Call); ok {
					parseCalls = append(parseCalls, c)
				}
				return
			}
			if p.callReachesStorage(ci) {
				storCalls = append(storCalls, ci)
			}
		})
		if len(parseCalls) == 0 {
			continue
		}
		nf++
		for i, sc := range storCalls {
			key := fmt.Sprintf("%s|%s#%d", p.FName(fn), callDesc(p, sc), i+1)
			ok := false
			for _, pc := range parseCalls {
				ev := errValueOf(pc)
				if ev == nil {
					continue
				}
				D := forwardTaint(ev)
				for _, b := range fn.Blocks {
					if fi, _, isT := nilTestOn(b, D); isT {
						if edgeDominates(b, 1-fi, sc.Block()) {
							ok = true
						}
					}
				}
			}
			r.add(ok, key, p.InstrPos(sc), "storage-reaching call must be dominated by the success edge of the parse/validate error test")
		}
		for _, pc := range parseCalls {
			if errValueOf(pc) == nil {
				r.hit(fmt.Sprintf("%s|parse-error-discarded", p.FName(fn)), p.InstrPos(pc), "error of the parse/validate call is discarded")
			}
		}
	}
	r.note("functions_parsing_and_reaching_storage", nf)
	r.floor("functions that parse and reach storage", nf, 1)
	r.floor("PARSEFIRST obligations", len(r.Obs), 2)
}
