package main

import (
	"fmt"
	"go/token"
	"go/types"
	"sort"
	"strings"

	"golang.org/x/tools/go/ssa"
)

// Rules added after the second round of independent breakages.

func init() {
	register("ROWINDEX", "vector evaluation is per row: an element of an operand column (the []any returned by ExecuteBatch) read at a constant index may only be probed for its dynamic type; its content must not flow into a computation (a separator, a compiled pattern) that is then applied to the other rows of the chunk", ruleRowIndex)
	register("STICKYFLAG", "an optimisation that requires ALL elements of a list to be literals (point reads for IN, a range for BETWEEN, folding a call with constant arguments) is unreachable once any element failed the literal test: on every path from a failed element test to the optimisation site some dominating guard is false, where the guard's possible values after the failure are computed edge by edge over the phis (a flag that a later literal element sets back to true, or that is never cleared, leaves the site reachable)", ruleStickyFlag)
	register("EVALBOTH", "vector operators evaluate both operands on every non-error path (no short circuit in batch mode: evaluating an operand fills the chunk cache that the scan re-indexes by row position)", ruleEvalBoth)
	register("FRESHROWS", "rows and batches handed to the caller are allocated per call: no slice stored into a returned row set is backed by a field of the plan (ORDER BY and LIMIT keep rows across child batches)", ruleFreshRows)
	register("AGGRALLFLAG", "the aggregate node treats all pairs as one group exactly when the statement has no GROUP BY: AggrAll is the constant true under GroupBy == nil and false otherwise", ruleAggrAllFlag)
}

// vectorFuncs: ExecuteBatch methods, registered vector bodies and the batch helpers they call statically.
func (p *Prog) vectorFuncs() []*ssa.Function {
	seen := map[*ssa.Function]bool{}
	var out []*ssa.Function
	add := func(f *ssa.Function) {
		if f == nil {
			return
		}
		for _, g := range p.staticClosure(f, 3, func(x *ssa.Function) bool { return metaMethods[x.Name()] }) {
			if !seen[g] && p.InPkg(g) {
				seen[g] = true
				out = append(out, g)
			}
		}
	}
	for _, t := range p.exprTypes() {
		add(p.Method(t, "ExecuteBatch"))
	}
	if rows, err := p.registry("funcMap"); err == nil {
		for _, row := range rows {
			add(row.BodyVec)
		}
	}
	return out
}

func isExecuteBatchResult(v ssa.Value) bool {
	ex, ok := v.(*ssa.Extract)
	if !ok || ex.Index != 0 {
		return false
	}
	c, ok := ex.Tuple.(*ssa.Call)
	if !ok {
		return false
	}
	if c.Call.IsInvoke() {
		return c.Call.Method.Name() == "ExecuteBatch"
	}
	f := c.Call.StaticCallee()
	return f != nil && f.Name() == "ExecuteBatch"
}

func ruleRowIndex(p *Prog, r *Result) {
	n := 0
	for _, fn := range p.vectorFuncs() {
		idx := 0
		allInstrs(fn, func(in ssa.Instruction) {
			ia, ok := in.(*ssa.IndexAddr)
			if !ok {
				return
			}
			if _, isC := constInt(ia.Index); !isC {
				return
			}
			if !derivesFromNoElem(ia.X, isExecuteBatchResult) && !isColumnOfColumnList(fn, ia.X) {
				return
			}
			n++
			idx++
			key := fmt.Sprintf("%s|const-index#%d", p.FName(fn), idx)
			bad := ""
			for _, ref := range *ia.Referrers() {
				ld, ok := ref.(*ssa.UnOp)
				if !ok {
					if _, isSt := ref.(*ssa.Store); isSt {
						continue // writing the result of row 0 back is fine
					}
					bad = "element address escapes"
					continue
				}
				for _, use := range *ld.Referrers() {
					ta, ok := use.(*ssa.TypeAssert)
					if !ok || !ta.CommaOk {
						bad = fmt.Sprintf("the value of row %s of an operand column is used by %s: row-dependent operands must be read per row", ia.Index, p.InstrPos(use))
						continue
					}
					if v := extractOf2(ta, 0); v != nil && v.Referrers() != nil && len(*v.Referrers()) > 0 {
						bad = "the content of a fixed row of an operand column is used, not only its dynamic type"
					}
				}
			}
			r.add(bad == "", key, p.InstrPos(ia), firstNonEmpty(bad, "a fixed row of an operand column is only probed for its dynamic type"))
		})
	}
	// ... nor is one fixed pair of the chunk evaluated to decide something for all rows: an element of the chunk
	// ([]KVPair) read at a constant index may only give its key to the per-chunk cache, it is not handed to Execute
	for _, fn := range p.vectorFuncs() {
		idx := 0
		allInstrs(fn, func(in ssa.Instruction) {
			ia, ok := in.(*ssa.IndexAddr)
			if !ok {
				return
			}
			if _, isC := constInt(ia.Index); !isC {
				return
			}
			sl, isSl := ia.X.Type().Underlying().(*types.Slice)
			if !isSl || typeName(sl.Elem()) != "KVPair" {
				return
			}
			n++
			idx++
			bad := ""
			for _, ref := range *ia.Referrers() {
				ld, ok := ref.(*ssa.UnOp)
				if !ok {
					continue
				}
				for _, use := range *ld.Referrers() {
					if c, ok := use.(ssa.CallInstruction); ok {
						cc := c.Common()
						nm := ""
						if cc.IsInvoke() {
							nm = cc.Method.Name()
						} else if g := cc.StaticCallee(); g != nil {
							nm = g.Name()
						}
						if nm == "Execute" || nm == "Filter" {
							bad = fmt.Sprintf("pair %s of the chunk is evaluated on its own at %s: what it decides is applied to the other rows", ia.Index, p.InstrPos(use.(ssa.Instruction)))
						} else if g := cc.StaticCallee(); g != nil && p.InPkg(g) {
							for _, h := range p.staticClosure(g, 2, nil) {
								allInstrs(h, func(in3 ssa.Instruction) {
									if c3, ok := in3.(ssa.CallInstruction); ok && c3.Common().IsInvoke() && c3.Common().Method.Name() == "Execute" {
										bad = fmt.Sprintf("pair %s of the chunk is handed to %s, which evaluates it on its own", ia.Index, g.Name())
									}
								})
							}
						}
					}
				}
			}
			r.add(bad == "", fmt.Sprintf("%s|chunk-const-index#%d", p.FName(fn), idx), p.InstrPos(ia), firstNonEmpty(bad, "a fixed pair of the chunk is not evaluated on its own"))
		})
	}
	r.note("constant_index_reads_of_operand_columns", n)
	r.ok("summary", "", fmt.Sprintf("%d constant-index reads of operand columns examined", n))
}

// ---------------- STICKYFLAG ----------------

var literalNodeTypes = map[string]bool{"StringExpr": true, "NumberExpr": true, "FloatExpr": true, "BoolExpr": true}

// reachFrom: blocks reachable from b by at least one edge, optionally avoiding one block.
func reachFrom(b, avoid *ssa.BasicBlock) map[*ssa.BasicBlock]bool {
	seen := map[*ssa.BasicBlock]bool{}
	var rec func(x *ssa.BasicBlock)
	rec = func(x *ssa.BasicBlock) {
		for _, s := range x.Succs {
			if s == avoid || seen[s] {
				continue
			}
			seen[s] = true
			rec(s)
		}
	}
	rec(b)
	return seen
}

// isLiteralPredicate: an in-package function whose last result is a bool that is true only
// under a successful type test of its first parameter against a literal node type.
func (p *Prog) isLiteralPredicate(f *ssa.Function) bool {
	if f == nil || !p.InPkg(f) || len(f.Blocks) == 0 || len(f.Params) == 0 {
		return false
	}
	res := f.Signature.Results()
	if res.Len() == 0 {
		return false
	}
	if bt, ok := res.At(res.Len() - 1).Type().Underlying().(*types.Basic); !ok || bt.Kind() != types.Bool {
		return false
	}
	isLitSuccessEdge := func(from, to *ssa.BasicBlock) bool {
		fi := ifOf(from)
		if fi == nil || from.Succs[0] != to {
			return false
		}
		ex, ok := fi.Cond.(*ssa.Extract)
		if !ok || ex.Index != 1 {
			return false
		}
		ta, ok := ex.Tuple.(*ssa.TypeAssert)
		return ok && literalNodeTypes[typeName(ta.AssertedType)] && ta.X == ssa.Value(f.Params[0])
	}
	// every way into b is the success edge of a literal type test of the parameter
	var underLiteral func(b *ssa.BasicBlock) bool
	var via func(b *ssa.BasicBlock, d int) bool
	via = func(b *ssa.BasicBlock, d int) bool {
		if len(b.Preds) == 0 || d > 6 {
			return false
		}
		for _, pr := range b.Preds {
			if isLitSuccessEdge(pr, b) {
				continue
			}
			if len(pr.Succs) == 1 && via(pr, d+1) {
				continue
			}
			return false
		}
		return true
	}
	underLiteral = func(b *ssa.BasicBlock) bool { return via(b, 0) }
	sawTrue := false
	for _, b := range f.Blocks {
		ret := retOf(b)
		if ret == nil {
			continue
		}
		v := retVal(ret, res.Len()-1)
		var check func(v ssa.Value, at *ssa.BasicBlock, d int) bool
		check = func(v ssa.Value, at *ssa.BasicBlock, d int) bool {
			if bv, ok := constBool(v); ok {
				if bv {
					sawTrue = true
					return underLiteral(at)
				}
				return true
			}
			if ph, ok := v.(*ssa.Phi); ok && d < 4 {
				for i, e := range ph.Edges {
					if !check(e, ph.Block().Preds[i], d+1) {
						return false
					}
				}
				return true
			}
			return false
		}
		if !check(v, b, 0) {
			return false
		}
	}
	return sawTrue
}

// literalTest: v is the outcome of testing an element for being a literal (comma-ok of a type
// assertion to a literal node type, or the bool result of a literal predicate), possibly negated.
func (p *Prog) literalTest(v ssa.Value) (tau ssa.Value, negated, ok bool) {
	for {
		if u, isU := v.(*ssa.UnOp); isU && u.Op == token.NOT {
			v, negated = u.X, !negated
			continue
		}
		break
	}
	switch x := v.(type) {
	case *ssa.Extract:
		switch t := x.Tuple.(type) {
		case *ssa.TypeAssert:
			if x.Index == 1 && literalNodeTypes[typeName(t.AssertedType)] {
				return v, negated, true
			}
		case *ssa.Call:
			if f := t.Call.StaticCallee(); f != nil && x.Index == f.Signature.Results().Len()-1 && p.isLiteralPredicate(f) {
				return v, negated, true
			}
		}
	case *ssa.Call:
		if f := x.Call.StaticCallee(); f != nil && f.Signature.Results().Len() == 1 && p.isLiteralPredicate(f) {
			return v, negated, true
		}
	}
	return nil, false, false
}

// exploreAfterFailure walks the CFG from a seed edge (pred -> blk) on which the values in
// forced have the given Boolean value, tracking the possible values of Boolean phis that are
// (re-)evaluated afterwards (bit 1 = false, bit 2 = true). A phi defined before the seed and
// not re-evaluated on some path keeps its unknown earlier value. Branches whose condition
// can only be false/true after the failure are followed on that side only. Returns the
// blocks reachable after the failure.
func exploreAfterFailure(fn *ssa.Function, pred, blk *ssa.BasicBlock, forced map[ssa.Value]int, blocked ...func(from, to *ssa.BasicBlock) bool) map[*ssa.BasicBlock]bool {
	env := map[*ssa.Phi]int{}
	reached := map[*ssa.BasicBlock]bool{}
	avoidCache := map[*ssa.BasicBlock]map[*ssa.BasicBlock]bool{}
	reachAvoiding := func(x, avoid *ssa.BasicBlock) bool {
		if avoid == blk {
			return false
		}
		m, ok := avoidCache[avoid]
		if !ok {
			m = reachFrom(blk, avoid)
			avoidCache[avoid] = m
		}
		return x == blk || m[x]
	}
	isBool := func(v ssa.Value) bool {
		bt, ok := v.Type().Underlying().(*types.Basic)
		return ok && bt.Kind() == types.Bool
	}
	absval := func(o ssa.Value, at *ssa.BasicBlock, seed bool) int {
		neg := false
		for {
			if u, ok := o.(*ssa.UnOp); ok && u.Op == token.NOT {
				o, neg = u.X, !neg
				continue
			}
			break
		}
		flip := func(v int) int {
			if !neg {
				return v
			}
			return (v&1)<<1 | (v&2)>>1
		}
		if bv, ok := constBool(o); ok {
			if bv {
				return flip(2)
			}
			return flip(1)
		}
		if seed {
			if fv, ok := forced[o]; ok {
				return flip(fv)
			}
			return 3
		}
		ph, ok := o.(*ssa.Phi)
		if !ok {
			return 3
		}
		res := env[ph]
		D := ph.Block()
		if D != blk && D.Dominates(blk) && reachAvoiding(at, D) {
			res |= 3
		}
		return flip(res)
	}
	changed := true
	enter := func(from, to *ssa.BasicBlock, seed bool) {
		if !seed {
			for _, bl := range blocked {
				if bl(from, to) {
					return
				}
			}
		}
		idx := -1
		for i, pr := range to.Preds {
			if pr == from {
				idx = i
			}
		}
		for _, in := range to.Instrs {
			ph, ok := in.(*ssa.Phi)
			if !ok {
				break
			}
			if !isBool(ph) || idx < 0 {
				continue
			}
			nv := absval(ph.Edges[idx], from, seed)
			if env[ph]|nv != env[ph] {
				env[ph] |= nv
				changed = true
			}
		}
		if !reached[to] {
			reached[to] = true
			changed = true
		}
	}
	enter(pred, blk, true)
	for changed {
		changed = false
		for _, b := range fn.Blocks {
			if !reached[b] {
				continue
			}
			if f := ifOf(b); f != nil {
				v := absval(f.Cond, b, false)
				if b == blk {
					// the seed block's own condition may be one of the forced values
					if fv, ok := forced[f.Cond]; ok {
						v = fv
					}
				}
				if v == 0 {
					v = 3
				}
				if v&2 != 0 {
					enter(b, b.Succs[0], false)
				}
				if v&1 != 0 {
					enter(b, b.Succs[1], false)
				}
				continue
			}
			for _, s := range b.Succs {
				enter(b, s, false)
			}
		}
	}
	return reached
}

func ruleStickyFlag(p *Prog, r *Result) {
	sc, _ := p.scanConsts()
	targets := []struct{ recv, method string }{
		{"FilterOptimizer", "optimizeInExpr"},
		{"FilterOptimizer", "optimizeBetweenExpr"},
		{"ExpressionOptimizer", "tryOptimizeFunctionCall"},
	}
	for _, tg := range targets {
		fn := p.MethodByName(tg.recv, tg.method)
		if fn == nil {
			r.undecided("anchor: (*%s).%s not found", tg.recv, tg.method)
			continue
		}
		key := p.FName(fn)
		inLoop := map[*ssa.BasicBlock]bool{}
		for _, l := range naturalLoops(fn) {
			for b := range l.Body {
				inLoop[b] = true
			}
		}
		// failure seeds inside the element loop
		type seed struct {
			pred, blk *ssa.BasicBlock
			forced    map[ssa.Value]int
		}
		var seeds []seed
		for _, b := range fn.Blocks {
			if !inLoop[b] {
				continue
			}
			// (1) a branch on a literal test: the side on which the test is false
			if f := ifOf(b); f != nil {
				if tau, neg, ok := p.literalTest(f.Cond); ok {
					failSucc := 1
					if neg {
						failSucc = 0
					}
					nb := b.Succs[failSucc]
					// type-switch chains: the element is a non-literal only after the last alternative failed
					chained := false
					if ex, ok := tau.(*ssa.Extract); ok {
						if ta, ok := ex.Tuple.(*ssa.TypeAssert); ok {
							if f2 := ifOf(nb); f2 != nil {
								if t2, _, ok := p.literalTest(f2.Cond); ok {
									if ex2, ok := t2.(*ssa.Extract); ok {
										if ta2, ok := ex2.Tuple.(*ssa.TypeAssert); ok && ta2.X == ta.X {
											chained = true
										}
									}
								}
							}
						}
					}
					if !chained {
						seeds = append(seeds, seed{b, nb, map[ssa.Value]int{tau: 1}})
					}
				}
			}
			// (2) a literal test flowing into a Boolean merge (flag = flag && isLiteral(x))
			for _, in := range b.Instrs {
				ph, ok := in.(*ssa.Phi)
				if !ok {
					break
				}
				for i, e := range ph.Edges {
					if tau, neg, ok := p.literalTest(e); ok {
						fv := 1
						if neg {
							fv = 2
						}
						seeds = append(seeds, seed{b.Preds[i], b, map[ssa.Value]int{tau: fv}})
					}
				}
			}
		}
		if len(seeds) == 0 {
			r.hit(key+"|elements", p.Pos(fn.Pos()), "no loop testing each element for being a literal")
			continue
		}
		// optimisation sites: a narrowing ScanType literal, or the evaluation of the call at planning time
		var sites []ssa.Instruction
		allInstrs(fn, func(in ssa.Instruction) {
			if c, ok := in.(*ssa.Call); ok {
				name := ""
				if c.Call.IsInvoke() {
					name = c.Call.Method.Name()
				} else if f := c.Call.StaticCallee(); f != nil {
					name = f.Name()
				}
				if name == "Execute" || name == "ExecuteBatch" {
					sites = append(sites, in)
				}
			}
		})
		for _, sa := range scanAllocs(fn) {
			if !sa.TpOK || sa.Tp != sc["FULL"] {
				sites = append(sites, sa.Alloc)
			}
		}
		if len(sites) == 0 {
			r.hit(key+"|sites", p.Pos(fn.Pos()), "no optimisation site (narrowing scan literal / planning-time evaluation) found")
			continue
		}
		reachedBy := make([]map[*ssa.BasicBlock]bool, len(seeds))
		for i, sd := range seeds {
			reachedBy[i] = exploreAfterFailure(fn, sd.pred, sd.blk, sd.forced)
		}
		for si, site := range sites {
			bad := ""
			for i, sd := range seeds {
				if reachedBy[i][site.Block()] {
					bad = fmt.Sprintf("after a non-literal element (test failing on the edge into the block at %s) the optimisation at %s is still reachable: the all-literals flag does not stay false", p.InstrPos(firstPosInstr(sd.blk)), p.InstrPos(site))
				}
			}
			r.add(bad == "", fmt.Sprintf("%s|site#%d", key, si+1), p.InstrPos(site), firstNonEmpty(bad, fmt.Sprintf("unreachable once any of the %d element tests failed", len(seeds))))
		}
	}
}

func firstPosInstr(b *ssa.BasicBlock) ssa.Instruction {
	for _, in := range b.Instrs {
		if in.Pos().IsValid() {
			return in
		}
	}
	return b.Instrs[0]
}

// ---------------- EVALBOTH ----------------

func ruleEvalBoth(p *Prog, r *Result) {
	bat := p.MethodByName("BinaryOpExpr", "ExecuteBatch")
	if bat == nil {
		r.undecided("anchor: (*BinaryOpExpr).ExecuteBatch not found")
		return
	}
	bt, err := p.dispatchTable(bat)
	if err != nil {
		r.undecided("%v", err)
		return
	}
	seen := map[*ssa.Function]bool{}
	n := 0
	for _, name := range sortedKeys(bt) {
		for _, cls := range []string{"str", "num"} {
			e := bt[name][cls]
			if e == nil || seen[e.Callee] {
				continue
			}
			seen[e.Callee] = true
			fn := e.Callee
			for _, side := range []string{"Left", "Right"} {
				var call *ssa.Call
				allInstrs(fn, func(in ssa.Instruction) {
					c, ok := in.(*ssa.Call)
					if !ok || !c.Call.IsInvoke() || c.Call.Method.Name() != "ExecuteBatch" {
						return
					}
					// receiver is directly the operand field (not an asserted / list element)
					if isFieldLoad(c.Call.Value, "BinaryOpExpr", side) {
						call = c
					}
				})
				if call == nil {
					continue // this helper evaluates that operand element-wise (IN / BETWEEN lists)
				}
				n++
				key := fmt.Sprintf("%s|%s", p.FName(fn), side)
				bad := ""
				for _, b := range fn.Blocks {
					ret := retOf(b)
					if ret == nil || len(ret.Results) < 2 || !isNilConst(retVal(ret, 1)) {
						continue
					}
					if isNilConst(retVal(ret, 0)) {
						continue // empty chunk: nothing to evaluate
					}
					if !instrDominates(call, ret) && !underListArm(fn, ret.Block(), side) {
						bad = fmt.Sprintf("the success return at %s can be reached without evaluating the %s operand (batch-mode short circuit leaves the chunk cache without this chunk's alias values)", p.InstrPos(ret), side)
					}
				}
				r.add(bad == "", key, p.InstrPos(call), firstNonEmpty(bad, side+" operand evaluated on every success path"))
			}
		}
	}
	r.floor("operand evaluations in batch helpers", n, 12)
}

// ---------------- FRESHROWS ----------------

func ruleFreshRows(p *Prog, r *Result) {
	plans, finals, err := p.planTypes()
	if err != nil {
		r.undecided("%v", err)
		return
	}
	n := 0
	for _, t := range append(append([]*types.Named{}, plans...), finals...) {
		for _, fn := range p.methodsOf(t) {
			res := fn.Signature.Results()
			if res.Len() < 1 {
				continue
			}
			if !isBatchSliceType(res.At(0).Type()) && !isRowType(res.At(0).Type()) {
				continue
			}
			if len(fn.Params) == 0 {
				continue
			}
			recv := ssa.Value(fn.Params[0])
			idx := 0
			// stores of slices into slice elements, and appends of slices: the stored slice must not be backed by a field of the plan
			check := func(in ssa.Instruction, v ssa.Value) {
				if _, isSl := v.Type().Underlying().(*types.Slice); !isSl {
					return
				}
				n++
				idx++
				key := fmt.Sprintf("%s|row#%d", p.FName(fn), idx)
				bad := ""
				for root := range sliceRoots(v) {
					if o, f, base, ok := loadedField(root); ok && o == t && base == recv {
						bad = "a returned row is a window of the plan's own buffer (field " + f + "): the next call overwrites rows the caller still holds"
					}
				}
				r.add(bad == "", key, p.InstrPos(in), firstNonEmpty(bad, "row storage is not a field of the plan"))
			}
			allInstrs(fn, func(in ssa.Instruction) {
				switch x := in.(type) {
				case *ssa.Store:
					if ia, ok := x.Addr.(*ssa.IndexAddr); ok {
						if sl, ok := ia.X.Type().Underlying().(*types.Slice); ok {
							if _, inner := sl.Elem().Underlying().(*types.Slice); inner {
								check(in, x.Val)
							}
						}
					}
				case *ssa.Call:
					if b, ok := x.Call.Value.(*ssa.Builtin); ok && b.Name() == "append" {
						if sl, ok := x.Type().Underlying().(*types.Slice); ok {
							if _, inner := sl.Elem().Underlying().(*types.Slice); inner {
								for _, e := range appendedElems(x) {
									check(in, e)
								}
							}
						}
					}
				}
			})
		}
	}
	// rows kept by the sort: what is pushed on the heap is allocated per row, never a slot of a buffer the plan owns
	if ot := p.Named("FinalOrderPlan"); ot != nil {
		for _, fn := range p.staticClosureOfMethods(ot) {
			idx := 0
			allInstrs(fn, func(in ssa.Instruction) {
				c, ok := in.(*ssa.Call)
				if !ok {
					return
				}
				g := c.Call.StaticCallee()
				if g == nil || p.qualName(g) != "container/heap.Push" || len(c.Call.Args) < 2 {
					return
				}
				n++
				idx++
				v := stripConv(c.Call.Args[1])
				bad := ""
				if ia, ok := v.(*ssa.IndexAddr); ok {
					for root := range sliceRoots(ia.X) {
						if _, f, _, ok := loadedField(root); ok {
							bad = "the row pushed on the heap is a slot of the plan's buffer (field " + f + "), which the next child batch overwrites while the heap still holds it"
						}
					}
				}
				r.add(bad == "", fmt.Sprintf("%s|heap-push#%d", p.FName(fn), idx), p.InstrPos(c), firstNonEmpty(bad, "the pushed row is not a slot of a plan-owned buffer"))
			})
		}
	}
	r.floor("row slices placed into returned row sets", n, 4)
}

// staticClosureOfMethods: the methods of t and the package functions they call statically (2 levels).
func (p *Prog) staticClosureOfMethods(t *types.Named) []*ssa.Function {
	seen := map[*ssa.Function]bool{}
	var out []*ssa.Function
	for _, m := range p.methodsOf(t) {
		for _, f := range p.staticClosure(m, 2, nil) {
			if !seen[f] {
				seen[f] = true
				out = append(out, f)
			}
		}
	}
	sort.Slice(out, func(i, j int) bool { return p.FName(out[i]) < p.FName(out[j]) })
	return out
}

func isRowType(t types.Type) bool {
	sl, ok := t.Underlying().(*types.Slice)
	if !ok {
		return false
	}
	return typeName(sl.Elem()) == "Column"
}

// ---------------- AGGRALLFLAG ----------------

func ruleAggrAllFlag(p *Prog, r *Result) {
	n := 0
	for _, fn := range p.Funcs {
		allInstrs(fn, func(in ssa.Instruction) {
			st, ok := in.(*ssa.Store)
			if !ok {
				return
			}
			o, f, base, ok := fieldOfAddr(st.Addr)
			if !ok || o == nil || o.Obj().Name() != "AggregatePlan" || f != "AggrAll" {
				return
			}
			if _, fresh := base.(*ssa.Alloc); !fresh {
				r.hit(p.FName(fn)+"|AggrAll-rewritten", p.InstrPos(st), "AggrAll of an existing aggregate node is rewritten")
				return
			}
			n++
			key := p.FName(fn) + "|AggrAll"
			ph, isPhi := st.Val.(*ssa.Phi)
			bad := ""
			if !isPhi {
				okDirect := false
				if bo, isB := st.Val.(*ssa.BinOp); isB && bo.Op == token.EQL {
					if (isFieldLoad(bo.X, "SelectStmt", "GroupBy") && isNilConst(bo.Y)) || (isFieldLoad(bo.Y, "SelectStmt", "GroupBy") && isNilConst(bo.X)) {
						okDirect = true // AggrAll: stmt.GroupBy == nil
					}
				}
				if !okDirect {
					bad = "AggrAll is not decided by the presence of GROUP BY"
				}
			} else {
				for i, e := range ph.Edges {
					bv, isC := constBool(e)
					if !isC {
						bad = "AggrAll is computed, not decided by the presence of GROUP BY"
						continue
					}
					// the edge must carry the matching atom on SelectStmt.GroupBy
					okEdge := false
					for _, a := range edgeAtoms(ph.Block().Preds[i], ph.Block()) {
						if isFieldLoad(a.X, "SelectStmt", "GroupBy") && isNilConst(a.Y) {
							isNil := a.Op == token.EQL
							if isNil == bv {
								okEdge = true
							}
						}
					}
					if !okEdge {
						bad = fmt.Sprintf("AggrAll = %v on a path that does not establish GroupBy %s nil", bv, map[bool]string{true: "==", false: "!="}[bv])
					}
				}
			}
			r.add(bad == "", key, p.InstrPos(st), firstNonEmpty(bad, "AggrAll is true exactly when there is no GROUP BY"))
		})
	}
	r.floor("AggregatePlan constructions", n, 1)
}

// underListArm: block x is dominated by the success edge of a type test of the operand
// against *ListExpr (the arm that evaluates the operand element by element).
func underListArm(fn *ssa.Function, x *ssa.BasicBlock, side string) bool {
	for _, b := range fn.Blocks {
		f := ifOf(b)
		if f == nil {
			continue
		}
		ex, ok := f.Cond.(*ssa.Extract)
		if !ok || ex.Index != 1 {
			continue
		}
		ta, ok := ex.Tuple.(*ssa.TypeAssert)
		if !ok || typeName(ta.AssertedType) != "ListExpr" || !isFieldLoad(ta.X, "BinaryOpExpr", side) {
			continue
		}
		if edgeDominates(b, 0, x) {
			return true
		}
	}
	return false
}

// ---------------- ROWCARRY ----------------

func init() {
	register("ROWCARRY", "vector evaluation is per row: inside a loop over the rows of a chunk, the value written for row i does not depend on a variable carried over from earlier iterations whose carried value was computed from an earlier row's operand (a pattern compiled from the first row, a separator read once)", ruleRowCarry)
}

// dataDeps: does v depend (through operands of value instructions, stores into local allocations) on a value satisfying pred?
func dataDeps(v ssa.Value, pred func(ssa.Value) bool) bool {
	seen := map[ssa.Value]bool{}
	var rec func(x ssa.Value, d int) bool
	rec = func(x ssa.Value, d int) bool {
		if x == nil || seen[x] || d > 40 {
			return false
		}
		seen[x] = true
		if pred(x) {
			return true
		}
		switch y := x.(type) {
		case *ssa.Slice:
			if k, ok := constInt(y.High); ok && k == 0 {
				return false // buf[:0]: storage reused, content reset
			}
		case *ssa.Alloc:
			for _, sv := range storedInto(y) {
				if rec(sv, d+1) {
					return true
				}
			}
			return false
		case *ssa.Parameter, *ssa.Const, *ssa.Global, *ssa.FreeVar, *ssa.Function, *ssa.Builtin:
			return false
		}
		in, ok := x.(ssa.Instruction)
		if !ok {
			return false
		}
		for _, op := range in.Operands(nil) {
			if op != nil && *op != nil && rec(*op, d+1) {
				return true
			}
		}
		return false
	}
	return rec(v, 0)
}

func isRowContainer(t types.Type) bool {
	sl, ok := t.Underlying().(*types.Slice)
	if !ok {
		return false
	}
	if _, isI := sl.Elem().Underlying().(*types.Interface); isI {
		return true
	}
	return typeName(sl.Elem()) == "KVPair"
}

func ruleRowCarry(p *Prog, r *Result) {
	nLoops := 0
	for _, fn := range p.vectorFuncs() {
		li := 0
		for _, L := range naturalLoops(fn) {
			// row index: a header int phi that indexes a column or the chunk inside the loop
			var idx *ssa.Phi
			for _, in := range L.Header.Instrs {
				ph, ok := in.(*ssa.Phi)
				if !ok {
					continue
				}
				for _, ref := range *ph.Referrers() {
					if ia, ok := ref.(*ssa.IndexAddr); ok && ia.Index == ssa.Value(ph) && isRowContainer(ia.X.Type()) && L.Body[ia.Block()] {
						idx = ph
					}
				}
			}
			if idx == nil {
				continue
			}
			nLoops++
			li++
			isRowElem := func(v ssa.Value) bool {
				ld, ok := v.(*ssa.UnOp)
				if !ok || ld.Op != token.MUL {
					return false
				}
				ia, ok := ld.X.(*ssa.IndexAddr)
				return ok && ia.Index == ssa.Value(idx) && isRowContainer(ia.X.Type())
			}
			var carried []*ssa.Phi
			for _, in := range L.Header.Instrs {
				ph, ok := in.(*ssa.Phi)
				if !ok || ph == idx {
					continue
				}
				for i, e := range ph.Edges {
					if L.Body[L.Header.Preds[i]] && dataDeps(e, isRowElem) {
						carried = append(carried, ph)
						break
					}
				}
			}
			key := fmt.Sprintf("%s|rowloop#%d", p.FName(fn), li)
			bad := ""
			// a one-entry memo is fine: the carried value is reused only where the current row's operand was
			// compared with the carried key it was computed from (an equality test between a row-derived
			// value and a carried variable inside the loop)
			isCarried := map[ssa.Value]bool{}
			for _, c := range carried {
				isCarried[c] = true
			}
			type memoGuard struct {
				b     *ssa.BasicBlock
				eqIdx int
			}
			var memoGuards []memoGuard
			for _, b := range orderedBlocks(fn, L.Body) {
				f := ifOf(b)
				if f == nil {
					continue
				}
				var x, y ssa.Value
				c := f.Cond
				eqIdx := 0
				for {
					if u, ok := c.(*ssa.UnOp); ok && u.Op == token.NOT {
						c = u.X
						eqIdx = 1 - eqIdx
						continue
					}
					break
				}
				switch cv := c.(type) {
				case *ssa.BinOp:
					if cv.Op == token.EQL || cv.Op == token.NEQ {
						x, y = cv.X, cv.Y
						if cv.Op == token.NEQ {
							eqIdx = 1 - eqIdx
						}
					}
				case *ssa.Call:
					if g := cv.Call.StaticCallee(); g != nil && (p.qualName(g) == "bytes.Equal") && len(cv.Call.Args) == 2 {
						x, y = cv.Call.Args[0], cv.Call.Args[1]
					}
				}
				if x == nil {
					continue
				}
				// dependencies of a value within this iteration: carried variables are leaves
				within := func(v ssa.Value) (onCarried, onRow bool) {
					seen := map[ssa.Value]bool{}
					var rec func(z ssa.Value, d int)
					rec = func(z ssa.Value, d int) {
						if z == nil || seen[z] || d > 40 {
							return
						}
						seen[z] = true
						if isCarried[z] {
							onCarried = true
							return
						}
						if isRowElem(z) {
							onRow = true
							return
						}
						switch z.(type) {
						case *ssa.Parameter, *ssa.Const, *ssa.Global, *ssa.FreeVar, *ssa.Function, *ssa.Builtin:
							return
						}
						if in, ok := z.(ssa.Instruction); ok {
							for _, op := range in.Operands(nil) {
								if op != nil && *op != nil {
									rec(*op, d+1)
								}
							}
						}
					}
					rec(v, 0)
					return
				}
				carriedSide := func(v ssa.Value) bool { c, rw := within(v); return c && !rw }
				rowSide := func(v ssa.Value) bool { _, rw := within(v); return rw }
				if (carriedSide(x) && rowSide(y)) || (carriedSide(y) && rowSide(x)) {
					memoGuards = append(memoGuards, memoGuard{b, eqIdx})
				}
			}
			underMemo := func(blk *ssa.BasicBlock) bool {
				for _, g := range memoGuards {
					if edgeDominates(g.b, g.eqIdx, blk) {
						return true
					}
				}
				return false
			}
			// reachesUnguarded: v depends on carried variable c other than through a merge edge taken
			// under a memo guard's equal side
			var reachesUnguarded func(v ssa.Value, c *ssa.Phi, seen map[ssa.Value]bool, d int) bool
			reachesUnguarded = func(v ssa.Value, c *ssa.Phi, seen map[ssa.Value]bool, d int) bool {
				if v == nil || seen[v] || d > 40 {
					return false
				}
				seen[v] = true
				if v == ssa.Value(c) {
					return true
				}
				switch y := v.(type) {
				case *ssa.Phi:
					if !L.Body[y.Block()] {
						return false
					}
					for i, e := range y.Edges {
						pr := y.Block().Preds[i]
						viaGuard := underMemo(pr)
						for _, g := range memoGuards {
							if g.b == pr && pr.Succs[g.eqIdx] == y.Block() {
								viaGuard = true
							}
						}
						if viaGuard && (e == ssa.Value(c) || isCarried[e]) {
							continue
						}
						if reachesUnguarded(e, c, seen, d+1) {
							return true
						}
					}
					return false
				case *ssa.Slice:
					if k, ok := constInt(y.High); ok && k == 0 {
						return false
					}
				case *ssa.Alloc:
					for _, sv := range storedInto(y) {
						if reachesUnguarded(sv, c, seen, d+1) {
							return true
						}
					}
					return false
				case *ssa.Parameter, *ssa.Const, *ssa.Global, *ssa.FreeVar, *ssa.Function, *ssa.Builtin:
					return false
				}
				in, ok := v.(ssa.Instruction)
				if !ok {
					return false
				}
				for _, op := range in.Operands(nil) {
					if op != nil && *op != nil && reachesUnguarded(*op, c, seen, d+1) {
						return true
					}
				}
				return false
			}
			for _, b := range orderedBlocks(fn, L.Body) {
				for _, in := range b.Instrs {
					st, ok := in.(*ssa.Store)
					if !ok {
						continue
					}
					ia, ok := st.Addr.(*ssa.IndexAddr)
					if !ok || ia.Index != ssa.Value(idx) || !isRowContainer(ia.X.Type()) {
						continue
					}
					if underMemo(st.Block()) {
						continue
					}
					for _, c := range carried {
						if reachesUnguarded(st.Val, c, map[ssa.Value]bool{}, 0) {
							nm := c.Comment
							if nm == "" {
								nm = c.Name()
							}
							bad = fmt.Sprintf("the result written for row i at %s depends on variable %q, which is carried from earlier iterations and was computed there from an earlier row's operand", p.InstrPos(st), nm)
						}
					}
				}
			}
			r.add(bad == "", key, p.InstrPos(L.Header.Instrs[0]), firstNonEmpty(bad, fmt.Sprintf("%d row-derived carried variables, none reaches a row result", len(carried))))
		}
	}
	r.floor("row loops in vector code", nLoops, 20)
}

// ---------------- REJECTFIRST ----------------

func init() {
	register("REJECTFIRST", "while a plan is being built (everything BuildPlan reaches before the plan is handed to the caller, including every plan's Init), an error that does not come from the storage layer is produced before the first storage operation: in no function of that phase can control flow from a storage-reaching call to the creation of a non-storage error", ruleRejectFirst)
}

func ruleRejectFirst(p *Prog, r *Result) {
	bp := p.MethodByName("Optimizer", "BuildPlan")
	if bp == nil {
		r.undecided("anchor: (*Optimizer).BuildPlan not found")
		return
	}
	scope, _, _ := p.rtaClosure([]*ssa.Function{bp}, false)
	// SE: functions of the phase that can produce an error of their own (not only pass on storage errors)
	errIdx := func(f *ssa.Function) int {
		res := f.Signature.Results()
		for i := res.Len() - 1; i >= 0; i-- {
			if isErrorType(res.At(i).Type()) {
				return i
			}
		}
		return -1
	}
	var fns []*ssa.Function
	for f := range scope {
		if p.InPkg(f) && len(f.Blocks) > 0 {
			fns = append(fns, f)
		}
	}
	sort.Slice(fns, func(i, j int) bool { return p.FName(fns[i]) < p.FName(fns[j]) })
	// error origins of a returned error value: the calls whose result it is
	origins := func(v ssa.Value) (calls []*ssa.Call, other bool) {
		seen := map[ssa.Value]bool{}
		var rec func(x ssa.Value)
		rec = func(x ssa.Value) {
			if x == nil || seen[x] {
				return
			}
			seen[x] = true
			switch y := x.(type) {
			case *ssa.Const:
			case *ssa.Phi:
				for _, e := range y.Edges {
					rec(e)
				}
			case *ssa.Extract:
				rec(y.Tuple)
			case *ssa.Call:
				calls = append(calls, y)
			case *ssa.MakeInterface:
				// a concrete error value built here: its constructor call, if any
				if c, ok := y.X.(*ssa.Call); ok {
					calls = append(calls, c)
				} else {
					other = true
				}
			case *ssa.ChangeInterface:
				rec(y.X)
			case *ssa.UnOp:
				// load of a local error variable (defer-spilled or captured)
				if al, ok := y.X.(*ssa.Alloc); ok {
					for _, sv := range storedInto(al) {
						rec(sv)
					}
				} else {
					other = true
				}
			default:
				other = true
			}
		}
		rec(v)
		return
	}
	SE := map[*ssa.Function]bool{}
	for grew := true; grew; {
		grew = false
		for _, f := range fns {
			if SE[f] {
				continue
			}
			ei := errIdx(f)
			if ei < 0 {
				continue
			}
			for _, b := range f.Blocks {
				ret := retOf(b)
				if ret == nil || SE[f] {
					continue
				}
				ev := retVal(ret, ei)
				if isNilConst(ev) {
					continue
				}
				cs, other := origins(ev)
				if other {
					SE[f] = true
					grew = true
					continue
				}
				for _, c := range cs {
					own := !p.callReachesStorage(c)
					for _, g := range p.Callees(c) {
						if SE[g] {
							own = true
						}
					}
					if own {
						SE[f] = true
						grew = true
					}
				}
			}
		}
	}
	n := 0
	for _, f := range fns {
		var stor []ssa.CallInstruction
		var rejects []*ssa.Call
		allInstrs(f, func(in ssa.Instruction) {
			ci, ok := in.(ssa.CallInstruction)
			if !ok {
				return
			}
			if p.callReachesStorage(ci) {
				stor = append(stor, ci)
			}
		})
		if len(stor) == 0 {
			continue
		}
		ei := errIdx(f)
		if ei < 0 {
			continue
		}
		// calls whose error this function returns and which may be a rejection of the statement
		for _, b := range f.Blocks {
			ret := retOf(b)
			if ret == nil {
				continue
			}
			ev := retVal(ret, ei)
			if isNilConst(ev) {
				continue
			}
			cs, _ := origins(ev)
			for _, c := range cs {
				rej := !p.callReachesStorage(c)
				for _, g := range p.Callees(c) {
					if SE[g] {
						rej = true
					}
				}
				if rej {
					rejects = append(rejects, c)
				}
			}
		}
		seenRej := map[*ssa.Call]bool{}
		idx := 0
		for _, rj := range rejects {
			if seenRej[rj] {
				continue
			}
			seenRej[rj] = true
			if p.isRepeatedInit(rj) {
				// Init of a plan that the callee already initialised successfully: it can only repeat
				// the verdict given before that callee's first storage operation
				r.note("repeated_init_"+p.FName(f), p.InstrPos(rj))
				continue
			}
			idx++
			n++
			key := fmt.Sprintf("%s|rejection#%d", p.FName(f), idx)
			bad := ""
			for _, sc := range stor {
				if sc == ssa.CallInstruction(rj) {
					continue
				}
				after := false
				if sc.Block() == rj.Block() {
					for _, in := range sc.Block().Instrs {
						if in == ssa.Instruction(sc) {
							after = true
							break
						}
						if in == ssa.Instruction(rj) {
							break
						}
					}
					if !after && reachFrom(sc.Block(), nil)[rj.Block()] {
						after = true
					}
				} else if reachFrom(sc.Block(), nil)[rj.Block()] {
					after = true
				}
				if after {
					bad = fmt.Sprintf("the error produced by %s at %s can be returned after the storage operation %s at %s: the statement is rejected only after storage was accessed", callDesc(p, rj), p.InstrPos(rj), callDesc(p, sc), p.InstrPos(sc))
				}
			}
			r.add(bad == "", key, p.InstrPos(rj), firstNonEmpty(bad, "produced before any storage operation of this function"))
		}
	}
	r.note("functions_in_plan_building_phase", len(fns))
	r.note("functions_producing_own_errors", len(SE))
	r.floor("rejection sites in storage-reaching plan-building functions", n, 1)
}

// isRepeatedInit: c invokes Init on a plan value returned by a same-package function every
// non-nil result of which has already passed Init inside that function (recursively).
func (p *Prog) isRepeatedInit(c *ssa.Call) bool {
	name := ""
	var recv ssa.Value
	if c.Call.IsInvoke() {
		name, recv = c.Call.Method.Name(), c.Call.Value
	} else if f := c.Call.StaticCallee(); f != nil && f.Signature.Recv() != nil && len(c.Call.Args) > 0 {
		name, recv = f.Name(), c.Call.Args[0]
	}
	// a package helper that does nothing but Init its parameter (initFinalPlan(plan)): the plan handed to it
	if h := c.Call.StaticCallee(); h != nil && name != "Init" && p.InPkg(h) {
		var only *ssa.Call
		calls := 0
		allInstrs(h, func(in ssa.Instruction) {
			if hc, ok := in.(*ssa.Call); ok {
				calls++
				only = hc
			}
		})
		if calls == 1 && only.Call.IsInvoke() && only.Call.Method.Name() == "Init" {
			if pa, ok := only.Call.Value.(*ssa.Parameter); ok {
				for k, q := range h.Params {
					if q == pa && k < len(c.Call.Args) {
						name, recv = "Init", c.Call.Args[k]
					}
				}
			}
		}
	}
	if name != "Init" || recv == nil {
		return false
	}
	ex, ok := stripConv(recv).(*ssa.Extract)
	if !ok || ex.Index != 0 {
		return false
	}
	call, ok := ex.Tuple.(*ssa.Call)
	if !ok {
		return false
	}
	return p.returnsInitialised(call.Call.StaticCallee(), 0)
}

func (p *Prog) returnsInitialised(g *ssa.Function, depth int) bool {
	if g == nil || !p.InPkg(g) || len(g.Blocks) == 0 || depth > 4 {
		return false
	}
	any := false
	for _, b := range g.Blocks {
		ret := retOf(b)
		if ret == nil || len(ret.Results) < 2 {
			continue
		}
		pv := retVal(ret, 0)
		if isNilConst(pv) {
			continue
		}
		any = true
		okRet := false
		base := stripConv(pv)
		// (a) the result pair of another function that returns initialised plans
		if ex, ok := base.(*ssa.Extract); ok {
			if c2, ok := ex.Tuple.(*ssa.Call); ok && p.returnsInitialised(c2.Call.StaticCallee(), depth+1) {
				okRet = true
			}
		}
		// (b) Init was called on this very value before the return
		if !okRet {
			allInstrs(g, func(in ssa.Instruction) {
				c, ok := in.(*ssa.Call)
				if !ok || okRet {
					return
				}
				var rv ssa.Value
				nm := ""
				if c.Call.IsInvoke() {
					nm, rv = c.Call.Method.Name(), c.Call.Value
				} else if f := c.Call.StaticCallee(); f != nil && f.Signature.Recv() != nil && len(c.Call.Args) > 0 {
					nm, rv = f.Name(), c.Call.Args[0]
				}
				if nm == "Init" && rv != nil && stripConv(rv) == base && instrDominates(c, ret) {
					okRet = true
				}
			})
		}
		if !okRet {
			return false
		}
	}
	return any
}

// ---------------- STMTLIST ----------------

func init() {
	register("STMTLIST", "the write plans execute the statement's own list: PutPlan.KVPairs is the PUT statement's pair list and RemovePlan.Keys built from a REMOVE statement is its key list, unchanged (or a full copy), never a filtered, reordered or de-duplicated version (every pair is evaluated, so a failing pair fails the statement)", ruleStmtList)
}

func ruleStmtList(p *Prog, r *Result) {
	type spec struct{ plan, field, stmt, sfield string }
	n := 0
	for _, sp := range []spec{{"PutPlan", "KVPairs", "PutStmt", "KVPairs"}, {"RemovePlan", "Keys", "RemoveStmt", "Keys"}} {
		for _, fn := range p.Funcs {
			hasStmt := false
			for _, pa := range fn.Params {
				if typeName(pa.Type()) == sp.stmt {
					hasStmt = true
				}
			}
			idx := 0
			allInstrs(fn, func(in ssa.Instruction) {
				st, ok := in.(*ssa.Store)
				if !ok {
					return
				}
				o, f, base, ok := fieldOfAddr(st.Addr)
				if !ok || o == nil || o.Obj().Name() != sp.plan || f != sp.field {
					return
				}
				if !hasStmt {
					// a plan built from something else than a statement of this kind (DELETE's key removal): DELKEYS/RMGUARD
					if _, fresh := base.(*ssa.Alloc); fresh {
						return
					}
				}
				n++
				idx++
				key := fmt.Sprintf("%s|%s.%s#%d", p.FName(fn), sp.plan, sp.field, idx)
				v := stripConv(st.Val)
				okv := false
				if o2, f2, _, ok := loadedField(v); ok && o2 != nil && o2.Obj().Name() == sp.stmt && f2 == sp.sfield {
					okv = true
				}
				// full copy: append(empty, list...) or slices.Clone(list)
				if c, ok := v.(*ssa.Call); ok {
					if b, isB := c.Call.Value.(*ssa.Builtin); isB && b.Name() == "append" && len(c.Call.Args) == 2 {
						if o2, f2, _, ok := loadedField(stripConv(c.Call.Args[1])); ok && o2 != nil && o2.Obj().Name() == sp.stmt && f2 == sp.sfield {
							if isNilConst(c.Call.Args[0]) {
								okv = true
							}
							if sl, ok := c.Call.Args[0].(*ssa.Slice); ok {
								if _, isMk := sl.X.(*ssa.Alloc); isMk {
									okv = true
								}
							}
						}
					}
					if g := c.Call.StaticCallee(); g != nil && g.Name() == "Clone" && g.Pkg != nil && g.Pkg.Pkg.Path() == "slices" && len(c.Call.Args) == 1 {
						if o2, f2, _, ok := loadedField(stripConv(c.Call.Args[0])); ok && o2 != nil && o2.Obj().Name() == sp.stmt && f2 == sp.sfield {
							okv = true
						}
					}
				}
				r.add(okv, key, p.InstrPos(st), fmt.Sprintf("the plan's %s is the statement's %s.%s itself (or a full copy)", sp.field, sp.stmt, sp.sfield))
			})
		}
	}
	r.floor("write plans built from statements", n, 2)
}

// ---------------- CHECKROUTE ----------------

func init() {
	register("CHECKROUTE", "sibling agreement between the type checker and the executor: two operators that (*BinaryOpExpr).Execute routes to the same evaluation helper are routed by (*BinaryOpExpr).Check to the same typing helper (an operator spelled with a word - and/or - is typed like its symbol), so no operator reaches an evaluator whose operand types its typing rule did not establish", ruleCheckRoute)
}

func ruleCheckRoute(p *Prog, r *Result) {
	exe := p.MethodByName("BinaryOpExpr", "Execute")
	chk := p.MethodByName("BinaryOpExpr", "Check")
	if exe == nil || chk == nil {
		r.undecided("anchor: (*BinaryOpExpr).Execute / Check not found")
		return
	}
	et, err := p.dispatchTable(exe)
	if err != nil {
		r.undecided("%v", err)
		return
	}
	ops := p.typedConsts("Operator")
	isOp := func(v ssa.Value) bool { return isFieldLoad(v, "BinaryOpExpr", "Op") }
	// typing helper per operator: the method of BinaryOpExpr whose error Check returns under Op == v
	checkOf := map[string]string{}
	for v, name := range ops {
		reach := walkAssuming(chk, decideEqConst(isOp, v))
		helpers := map[string]bool{}
		for _, b := range orderedBlocks(chk, reach) {
			ret := retOf(b)
			if ret == nil {
				continue
			}
			ev := retVal(ret, 0)
			if isNilConst(ev) {
				continue
			}
			var walk func(x ssa.Value, d int)
			seen := map[ssa.Value]bool{}
			walk = func(x ssa.Value, d int) {
				if x == nil || seen[x] || d > 6 {
					return
				}
				seen[x] = true
				switch y := x.(type) {
				case *ssa.Phi:
					for i, e := range y.Edges {
						if reach[y.Block().Preds[i]] {
							walk(e, d+1)
						}
					}
				case *ssa.Extract:
					walk(y.Tuple, d+1)
				case *ssa.MakeInterface:
					walk(y.X, d+1)
				case *ssa.Call:
					if !reach[y.Block()] {
						return
					}
					if f := y.Call.StaticCallee(); f != nil && f.Signature.Recv() != nil && namedOf(f.Signature.Recv().Type()) != nil && namedOf(f.Signature.Recv().Type()).Obj().Name() == "BinaryOpExpr" {
						helpers[f.Name()] = true
					} else if f != nil {
						helpers["reject:"+f.Name()] = true
					}
				}
			}
			walk(ev, 0)
		}
		// child checks (Left.Check / Right.Check) are invokes, not BinaryOpExpr helpers: ignored above
		var hs []string
		for h := range helpers {
			hs = append(hs, h)
		}
		sort.Strings(hs)
		checkOf[name] = strings.Join(hs, "+")
	}
	// group by evaluation helper
	byExec := map[string][]string{}
	for name, cls := range et {
		for _, c := range []string{"str", "num"} {
			if e := cls[c]; e != nil {
				k := e.Callee.Name()
				found := false
				for _, x := range byExec[k] {
					if x == name {
						found = true
					}
				}
				if !found {
					byExec[k] = append(byExec[k], name)
				}
			}
		}
	}
	n := 0
	for _, helper := range sortedKeys(byExec) {
		names := byExec[helper]
		sort.Strings(names)
		if len(names) < 2 {
			continue
		}
		// majority typing helper among the operators sharing this evaluator
		cnt := map[string]int{}
		for _, nm := range names {
			cnt[checkOf[nm]]++
		}
		best := ""
		for h, c := range cnt {
			if c > cnt[best] || (c == cnt[best] && h < best) {
				best = h
			}
		}
		for _, nm := range names {
			n++
			r.add(checkOf[nm] == best, fmt.Sprintf("%s|%s", helper, nm), p.Pos(chk.Pos()), fmt.Sprintf("operator %s is evaluated by %s like %v; it is typed by %q, its siblings by %q", nm, helper, names, checkOf[nm], best))
		}
	}
	r.note("typing_helper_per_operator", checkOf)
	r.floor("operators sharing an evaluation helper", n, 8)
}

// ---------------- ADMITCLASS ----------------

func init() {
	register("ADMITCLASS", "an operator whose evaluation is dispatched on `left operand is text / otherwise number` (comparisons, IN, BETWEEN) is admitted by the type checker only for operands of static type text or number: under the assumption that the left operand has any other static type (and the other operands agree with it wherever the helper compares them), no success return of its typing helper is reachable (constant propagation of the assumed type through the helper's branch conditions)", ruleAdmitClass)
}

func ruleAdmitClass(p *Prog, r *Result) {
	exe := p.MethodByName("BinaryOpExpr", "Execute")
	chk := p.MethodByName("BinaryOpExpr", "Check")
	if exe == nil || chk == nil {
		r.undecided("anchor: (*BinaryOpExpr).Execute / Check not found")
		return
	}
	et, err := p.dispatchTable(exe)
	if err != nil {
		r.undecided("%v", err)
		return
	}
	ops := p.typedConsts("Operator")
	types_ := p.typedConsts("Type")
	if len(types_) < 5 {
		r.undecided("anchor: Type constants not found")
		return
	}
	isOp := func(v ssa.Value) bool { return isFieldLoad(v, "BinaryOpExpr", "Op") }
	isRT := func(v ssa.Value) bool {
		c, ok := v.(*ssa.Call)
		if !ok {
			return false
		}
		if c.Call.IsInvoke() {
			return c.Call.Method.Name() == "ReturnType"
		}
		f := c.Call.StaticCallee()
		return f != nil && f.Name() == "ReturnType"
	}
	// static types the equality evaluator supports: every representation their producers box has a case
	var eqSupported map[string]bool
	if eq := p.MethodByName("BinaryOpExpr", "execEqual"); eq != nil {
		have := switchCases(eq, func(v ssa.Value) bool {
			_, isI := v.Type().Underlying().(*types.Interface)
			return isI
		})
		kindsOf := map[string]map[string]bool{}
		if rows, err := p.registry("funcMap"); err == nil {
			for _, row := range rows {
				if row.Body == nil {
					continue
				}
				k, _ := p.bodyKinds(row.Body)
				tnm := types_[row.Ret]
				if kindsOf[tnm] == nil {
					kindsOf[tnm] = map[string]bool{}
				}
				for x := range k {
					kindsOf[tnm][x] = true
				}
			}
		}
		eqSupported = map[string]bool{}
		for tnm, ks := range kindsOf {
			all := len(ks) > 0
			for k := range ks {
				if !have[k] {
					all = false
				}
			}
			if all {
				eqSupported[tnm] = true
			}
		}
		r.note("static_types_supported_by_equality", keysOf(eqSupported))
	}
	o2s, _ := p.mapLiteral("OperatorToString")
	n := 0
	var opVals []int64
	for v := range ops {
		opVals = append(opVals, v)
	}
	sort.Slice(opVals, func(i, j int) bool { return opVals[i] < opVals[j] })
	for _, v := range opVals {
		name := ops[v]
		es, en := et[name]["str"], et[name]["num"]
		if es == nil || en == nil {
			continue
		}
		supported := map[string]bool{"TSTR": true, "TNUMBER": true}
		arith := len(en.Consts) > 0 && strings.HasPrefix(en.Consts[0], "b:")
		bothSides := false
		supportedConst := int64(-1)
		classNote := fmt.Sprintf("is evaluated by %s for text and %s otherwise", es.Callee.Name(), en.Callee.Name())
		if es.Callee == en.Callee && strings.Join(es.Consts, ",") == strings.Join(en.Consts, ",") {
			// not dispatched on the operand class: only the equality helper, whose type switch on the
			// evaluated operand decides which static types it supports
			switch {
			case strings.HasPrefix(es.Callee.Name(), "execAnd") || strings.HasPrefix(es.Callee.Name(), "execOr"):
				// the logic operators assert Boolean operands on both sides
				supported = map[string]bool{"TBOOL": true}
				bothSides = true
				for tv2, nm := range types_ {
					if nm == "TBOOL" {
						supportedConst = tv2
					}
				}
				classNote = fmt.Sprintf("is evaluated by %s, which asserts Boolean operands", es.Callee.Name())
			case eqSupported != nil && (strings.HasPrefix(es.Callee.Name(), "execEqual") || strings.HasPrefix(es.Callee.Name(), "execNotEqual")):
				supported = eqSupported
				classNote = fmt.Sprintf("is evaluated by %s, whose type switch covers the representations of %v only", es.Callee.Name(), keysOf(eqSupported))
			default:
				if !arith {
					continue
				}
				supported = map[string]bool{"TNUMBER": true}
				classNote = fmt.Sprintf("is evaluated by %s for every operand class", en.Callee.Name())
			}
		}
		// the typing helper of this operator
		reach := walkAssuming(chk, decideEqConst(isOp, v))
		var helper *ssa.Function
		for _, b := range orderedBlocks(chk, reach) {
			for _, in := range b.Instrs {
				if c, ok := in.(*ssa.Call); ok {
					if f := c.Call.StaticCallee(); f != nil && f.Signature.Recv() != nil && strings.HasPrefix(f.Name(), "check") {
						helper = f
					}
				}
			}
		}
		if helper == nil {
			r.hit("helper|"+name, p.Pos(chk.Pos()), "no typing helper found for class-dispatched operator "+name)
			continue
		}
		var tvals []int64
		for tv := range types_ {
			tvals = append(tvals, tv)
		}
		sort.Slice(tvals, func(i, j int) bool { return tvals[i] < tvals[j] })
		var sideKind *types.Named // when set: the node kind of the operand on `side`
		rejectsT := func(tv int64, side string, otherTv int64) string {
			fieldOf := map[string]string{"left": "Left", "right": "Right"}
			other := map[string]string{"left": "right", "right": "left"}[side]
			roleOf := func(fn *ssa.Function, x ssa.Value, bound map[*ssa.Parameter]string) string {
				x = stripConv(x)
				if pa, ok := x.(*ssa.Parameter); ok {
					return bound[pa]
				}
				for role, f := range fieldOf {
					if isFieldLoad(x, "BinaryOpExpr", f) {
						return role
					}
				}
				return ""
			}
			rtRecvOf := func(c *ssa.Call) ssa.Value {
				if c.Call.IsInvoke() {
					return c.Call.Value
				}
				if len(c.Call.Args) > 0 {
					return c.Call.Args[0]
				}
				return nil
			}
			as := &assumption{p: p}
			as.leaf = func(fn *ssa.Function, x ssa.Value, bound map[*ssa.Parameter]string) (aval, bool) {
				if isOp(x) {
					return aval{kind: 1, i: v}, true
				}
				// the operator's spelling (op := OperatorToString[e.Op]; op == "+") as a code
				if lk, ok := x.(*ssa.Lookup); ok && isOp(lk.Index) {
					if sp, has := o2s[fmt.Sprint(v)]; has {
						return aval{kind: 1, i: strCodeOf(sp)}, true
					}
				}
				if sc, ok := constString(x); ok {
					return aval{kind: 1, i: strCodeOf(sc)}, true
				}
				if c, ok := x.(*ssa.Call); ok && isRT(x) {
					if rv := rtRecvOf(c); rv != nil {
						switch roleOf(fn, rv, bound) {
						case side:
							return aval{kind: 1, i: tv}, true
						case other:
							if otherTv >= 0 {
								return aval{kind: 1, i: otherTv}, true
							}
						}
					}
					return aval{}, true // unknown by itself
				}
				// ... but the two operands' types agree wherever the helper compares them (when the scenario leaves the other open)
				if bo, ok := x.(*ssa.BinOp); ok && otherTv < 0 && (bo.Op == token.EQL || bo.Op == token.NEQ) && isRT(bo.X) && isRT(bo.Y) {
					if bo.Op == token.EQL {
						return aval{kind: 2, b: abTrue}, true
					}
					return aval{kind: 2, b: abFalse}, true
				}
				return aval{}, false
			}
			as.typeTest = func(fn *ssa.Function, ta *ssa.TypeAssert, bound map[*ssa.Parameter]string) (abool, bool) {
				want := int64(-1)
				switch roleOf(fn, ta.X, bound) {
				case side:
					want = tv
				case other:
					want = otherTv
				}
				if want < 0 {
					return abBoth, false
				}
				if sideKind != nil && roleOf(fn, ta.X, bound) == side {
					if nt := namedOf(ta.AssertedType); nt != nil {
						if _, isIface := nt.Underlying().(*types.Interface); !isIface {
							if nt.Obj() == sideKind.Obj() {
								return abTrue, true
							}
							return abFalse, true
						}
					}
				}
				if nt := namedOf(ta.AssertedType); nt != nil {
					if ft, fixed := p.fixedReturnType(nt); fixed && ft != want {
						return abFalse, true
					}
				}
				return abBoth, false
			}
			as.bind = func(fn *ssa.Function, arg ssa.Value, bound map[*ssa.Parameter]string) string {
				if role := roleOf(fn, arg, bound); role == "left" || role == "right" {
					return role
				}
				if pa, ok := stripConv(arg).(*ssa.Parameter); ok && (bound[pa] == "node" || (fn == helper && len(fn.Params) > 0 && pa == fn.Params[0])) {
					return "node"
				}
				return ""
			}
			res := as.run(helper, map[*ssa.Parameter]string{helper.Params[0]: "node"})
			acc := ""
			for _, ret := range res.rets {
				ev := res.ev(retVal(ret, 0))
				// `if err != nil { return err }`: non-nil on this path whatever the summary of its producer says
				nonNilHere := false
				for _, a := range dominatingAtoms(ret.Block()) {
					if a.Op == token.NEQ && a.X == retVal(ret, 0) && isNilConst(a.Y) {
						nonNilHere = true
					}
				}
				if nonNilHere {
					continue
				}
				if isNilConst(retVal(ret, 0)) || (ev.kind == 3 && ev.isNil != abFalse) || ev.kind == 0 {
					acc = p.InstrPos(ret)
				}
			}
			return acc
		}
		for _, tv := range tvals {
			tn := types_[tv]
			if supported[tn] {
				continue
			}
			n++
			// assumption: the operator is `v`, one operand (`side`) has static type tv, and wherever the helper compares
			// the two operands' types they agree (unless the other operand's type is fixed by the scenario). Roles:
			// "left"/"right" = the operand (the field, or a parameter bound to it at a call), "node" = the operator node.
			rejects := func(side string, otherTv int64) string { return rejectsT(tv, side, otherTv) }
			accepted := rejects("left", -1)
			if accepted == "" && bothSides {
				// the right operand of a logic operator: a Boolean left operand does not excuse a non-Boolean right one
				accepted = rejects("right", supportedConst)
				if accepted != "" {
					accepted += " (right operand, Boolean left operand)"
				}
			}
			r.add(accepted == "", fmt.Sprintf("%s|%s", name, tn), p.Pos(helper.Pos()), fmt.Sprintf("operator %s %s; its typing helper %s must reject operands of static type %s%s", name, classNote, helper.Name(), tn, map[bool]string{true: " but accepts them at " + accepted}[accepted != ""]))
		}
		// the verdict depends on the static type of an operand, not on the kind of node that has it: where the helper
		// accepts a function call of static type k on one side (a node whose type is only known through ReturnType),
		// it accepts every node kind whose type is always k. (A node-kind list in front of the type test that forgets
		// a kind refuses statements the typing rules allow - and the trees the constant folder leaves behind.)
		if fc := p.Named("FunctionCallExpr"); fc != nil {
			for _, side := range []string{"left", "right"} {
				for _, tv := range tvals {
					if !supported[types_[tv]] {
						continue
					}
					sideKind = fc
					generic := rejectsT(tv, side, -1)
					sideKind = nil
					if generic == "" {
						continue
					}
					for _, t := range p.exprTypes() {
						ft, fixed := p.fixedReturnType(t)
						if !fixed || ft != tv {
							continue
						}
						sideKind = t
						acc := rejectsT(tv, side, -1)
						sideKind = nil
						n++
						r.add(acc != "", fmt.Sprintf("%s|kind|%s|%s", name, side, t.Obj().Name()), p.Pos(helper.Pos()), fmt.Sprintf("operator %s: %s accepts a function call of static type %s as its %s operand, so it accepts a %s node, whose type is always %s", name, helper.Name(), types_[tv], side, t.Obj().Name(), types_[tv]))
					}
				}
			}
		}
		if arith {
			// arithmetic: the evaluator handles number with number (and text with text where a text variant is dispatched);
			// every other pair of static operand types must be rejected, whichever side carries which type
			textVariant := es.Callee != en.Callee
			for _, lt := range tvals {
				for _, rt := range tvals {
					ln, rn := types_[lt], types_[rt]
					if (ln == "TNUMBER" && rn == "TNUMBER") || (textVariant && ln == "TSTR" && rn == "TSTR") {
						continue
					}
					if !supported[ln] {
						continue // decided above with the right operand left open
					}
					n++
					accepted := rejectsT(lt, "left", rt)
					r.add(accepted == "", fmt.Sprintf("%s|%s,%s", name, ln, rn), p.Pos(helper.Pos()), fmt.Sprintf("arithmetic operator %s must reject a %s left operand with a %s right operand%s", name, ln, rn, map[bool]string{true: " but accepts them at " + accepted}[accepted != ""]))
				}
			}
		}
	}
	r.floor("(class-dispatched operator, unsupported static type) pairs", n, 20)
}

func strCodeOf(s string) int64 {
	var h int64 = 1469598103934665603
	for i := 0; i < len(s); i++ {
		h = (h ^ int64(s[i])) * 1099511628211
	}
	return h
}

// fixedReturnType: every return of T.ReturnType is the same constant.
func (p *Prog) fixedReturnType(t *types.Named) (int64, bool) {
	f := p.Method(t, "ReturnType")
	if f == nil || len(f.Blocks) == 0 {
		return 0, false
	}
	var val int64
	have := false
	for _, b := range f.Blocks {
		ret := retOf(b)
		if ret == nil {
			continue
		}
		c, ok := constInt(retVal(ret, 0))
		if !ok {
			return 0, false
		}
		if have && c != val {
			return 0, false
		}
		val, have = c, true
	}
	return val, have
}

// ---------------- ADJUSTCOVER ----------------

func init() {
	register("ADJUSTCOVER", "cache maintenance covers every cache: each map-valued field of ExecuteCtx is emptied by Clear, and each per-chunk cache (a map whose values are columns) is re-indexed or emptied by AdjustChunkCache - after filtering, positions in a chunk mean other rows, so no by-position entry computed on the unfiltered chunk may survive", ruleAdjustCover)
}

func ruleAdjustCover(p *Prog, r *Result) {
	ct := p.Named("ExecuteCtx")
	if ct == nil {
		r.undecided("anchor: ExecuteCtx not found")
		return
	}
	st, ok := ct.Underlying().(*types.Struct)
	if !ok {
		r.undecided("anchor: ExecuteCtx is not a struct")
		return
	}
	handled := func(fn *ssa.Function, field string) bool {
		okv := false
		for _, f := range p.staticClosure(fn, 2, nil) {
			allInstrs(f, func(in ssa.Instruction) {
				switch x := in.(type) {
				case *ssa.MapUpdate:
					if isFieldLoad(x.Map, "ExecuteCtx", field) {
						okv = true
					}
				case *ssa.Call:
					if b, isB := x.Call.Value.(*ssa.Builtin); isB && (b.Name() == "clear" || b.Name() == "delete") && len(x.Call.Args) > 0 && isFieldLoad(x.Call.Args[0], "ExecuteCtx", field) {
						okv = true
					}
				case *ssa.Store:
					if _, fl, _, ok := fieldOfAddr(x.Addr); ok && fl == field {
						okv = true // replaced by a fresh map
					}
				}
			})
		}
		return okv
	}
	clr, adj := p.Method(ct, "Clear"), p.Method(ct, "AdjustChunkCache")
	if clr == nil || adj == nil {
		r.undecided("anchor: ExecuteCtx.Clear / AdjustChunkCache not found")
		return
	}
	n := 0
	for i := 0; i < st.NumFields(); i++ {
		f := st.Field(i)
		mt, isMap := f.Type().Underlying().(*types.Map)
		if !isMap {
			continue
		}
		n++
		r.add(handled(clr, f.Name()), "Clear|"+f.Name(), p.Pos(clr.Pos()), "Clear empties cache "+f.Name())
		if _, perChunk := mt.Elem().Underlying().(*types.Slice); perChunk {
			n++
			r.add(handled(adj, f.Name()), "AdjustChunkCache|"+f.Name(), p.Pos(adj.Pos()), "AdjustChunkCache re-indexes or empties the per-chunk cache "+f.Name()+" (entries computed on the unfiltered chunk must not be found for the filtered one)")
			// ... on every way out (a fast path that returns early skips nothing), except where caching is switched off
			var ops []ssa.Instruction
			allInstrs(adj, func(in ssa.Instruction) {
				switch x := in.(type) {
				case *ssa.Range:
					if isFieldLoad(x.X, "ExecuteCtx", f.Name()) {
						ops = append(ops, in)
					}
				case *ssa.Call:
					if b, isB := x.Call.Value.(*ssa.Builtin); isB && (b.Name() == "clear" || b.Name() == "delete") && len(x.Call.Args) > 0 && isFieldLoad(x.Call.Args[0], "ExecuteCtx", f.Name()) {
						ops = append(ops, in)
					} else if g := x.Call.StaticCallee(); g != nil && p.InPkg(g) && g != adj && handled(g, f.Name()) {
						ops = append(ops, in)
					}
				case *ssa.Store:
					if _, fl, _, ok := fieldOfAddr(x.Addr); ok && fl == f.Name() {
						ops = append(ops, in)
					}
				}
			})
			reindexed := false
			for _, op := range ops {
				if _, isRange := op.(*ssa.Range); isRange {
					reindexed = true
				}
			}
			if reindexed {
				// a cache that is re-indexed by position may legitimately be left alone when every row was chosen
				continue
			}
			nret := 0
			okAll := true
			where := ""
			for _, b := range adj.Blocks {
				ret := retOf(b)
				if ret == nil {
					continue
				}
				off := false
				for _, a := range dominatingAtoms(b) {
					if _, fl, _, ok := loadedField(a.X); ok && fl == "EnableCache" {
						if bv, isB := constBool(a.Y); isB && ((a.Op == token.EQL) == bv) == false {
							off = true
						}
					}
				}
				if off {
					continue
				}
				nret++
				dom := false
				for _, op := range ops {
					if instrDominates(op, ret) {
						dom = true
					}
				}
				if !dom {
					okAll = false
					where = p.InstrPos(ret)
				}
			}
			r.add(okAll && nret > 0, "AdjustChunkCache|"+f.Name()+"|every-exit", p.Pos(adj.Pos()), "every return of AdjustChunkCache (with caching on) is preceded by the emptying of "+f.Name()+firstNonEmpty(map[bool]string{true: " - not the one at " + where}[where != ""], ""))
		}
	}
	r.floor("cache maintenance obligations", n, 4)
}

// ---------------- REGIONSTICKY ----------------

func init() {
	register("REGIONSTICKY", "typestate of the cursor plans with a region (prefix, range): every way out of the fetch loop other than an error return or a full batch window (end of cursor, key outside the region) sets a Boolean field of the plan; every Cursor.Next of Next and Batch is dominated by the test that this field is false; nothing in Next/Batch sets it back; Init resets it. So a finished scan, polled again (as draining in batches does), reads no further key beyond its region", ruleRegionSticky)
}

func ruleRegionSticky(p *Prog, r *Result) {
	plans, _, _ := p.planTypes()
	n := 0
	for _, t := range plans {
		cl := p.planClass(t)
		if cl != "range" && cl != "prefix" {
			continue
		}
		tn := t.Obj().Name()
		flagField := ""
		for _, mn := range []string{"Next", "Batch"} {
			fn := p.Method(t, mn)
			if fn == nil {
				continue
			}
			var fetch *ssa.Call
			outer := fn // the method itself; fn becomes the function holding the fetch loop (the method or a helper of the plan)
			var helperSites []*ssa.Call
			for _, s := range p.storage().ByFn[fn] {
				if s.Method == "Cursor.Next" {
					fetch, _ = s.Instr.(*ssa.Call)
				}
			}
			if fetch == nil {
				// the fetch loop may live in a helper method of the same plan (`p.fetchWindow(buf)`)
				allInstrs(outer, func(in ssa.Instruction) {
					c, ok := in.(*ssa.Call)
					if !ok {
						return
					}
					h := c.Call.StaticCallee()
					if h == nil || h.Signature.Recv() == nil || namedOf(h.Signature.Recv().Type()) != t {
						return
					}
					for _, s := range p.storage().ByFn[h] {
						if s.Method == "Cursor.Next" {
							if fc, ok := s.Instr.(*ssa.Call); ok {
								fetch, fn = fc, h
								helperSites = append(helperSites, c)
							}
						}
					}
				})
			}
			if fetch == nil {
				r.hit(tn+"."+mn+"|fetch", p.Pos(fn.Pos()), "no Cursor.Next fetch found")
				continue
			}
			loops := naturalLoops(fn)
			var inner *Loop
			for _, L := range loops {
				if L.Body[fetch.Block()] && (inner == nil || len(L.Body) < len(inner.Body)) {
					inner = L
				}
			}
			if inner == nil {
				r.hit(tn+"."+mn+"|loop", p.Pos(fn.Pos()), "the fetch is not in a loop")
				continue
			}
			// (a) exits set the flag
			ei := 0
			for _, b := range orderedBlocks(fn, inner.Body) {
				for si, s := range b.Succs {
					if inner.Body[s] || returnsNonNilErrorFrom(s) {
						continue
					}
					if b == inner.Header {
						// the loop condition itself: either the window is full (more reads are legitimate) or the flag is already set
						continue
					}
					// a row is handed out: not the end of the region
					if rt := retOf(s); rt != nil && len(rt.Results) > 0 && !isNilConst(retVal(rt, 0)) {
						continue
					}
					n++
					ei++
					key := fmt.Sprintf("%s.%s|exit#%d", tn, mn, ei)
					field := ""
					// the exit path: s and the blocks it dominates before control merges again
					for _, x := range fn.Blocks {
						if x != s && !(s.Dominates(x) && len(x.Preds) == 1) {
							continue
						}
						for _, in := range x.Instrs {
							if st, ok := in.(*ssa.Store); ok {
								if o, fl, base, ok := fieldOfAddr(st.Addr); ok && o == t && len(fn.Params) > 0 && base == ssa.Value(fn.Params[0]) {
									if bv, isB := constBool(st.Val); isB && bv {
										field = fl
									}
								}
							}
						}
					}
					_ = si
					if field != "" {
						if flagField != "" && flagField != field {
							field = ""
						} else {
							flagField = field
						}
					}
					r.add(field != "", key, p.InstrPos(b.Instrs[len(b.Instrs)-1]), "leaving the region (or the end of the cursor) is recorded in a field of the plan, so that a later call does not read on")
				}
			}
			// (b) the fetch is guarded by the flag
			n++
			guardedAt := func(b *ssa.BasicBlock) bool {
				for _, a := range dominatingAtoms(b) {
					if bv, isB := constBool(a.Y); isB && flagField != "" && isFieldLoad(a.X, tn, flagField) {
						if (a.Op == token.EQL && !bv) || (a.Op == token.NEQ && bv) {
							return true
						}
					}
				}
				return false
			}
			guarded := guardedAt(fetch.Block())
			if !guarded && len(helperSites) > 0 {
				// guarded at every call of the helper instead
				guarded = true
				for _, hc := range helperSites {
					if !guardedAt(hc.Block()) {
						guarded = false
					}
				}
			}
			r.add(guarded, fmt.Sprintf("%s.%s|guard", tn, mn), p.InstrPos(fetch), "every Cursor.Next is dominated by the test that the scan has not left its region yet")
			// (d) set only where the region (or the cursor) ended: a full batch is not the end of the scan
			n++
			early := ""
			allInstrs(fn, func(in ssa.Instruction) {
				st, ok := in.(*ssa.Store)
				if !ok {
					return
				}
				o, fl, _, ok := fieldOfAddr(st.Addr)
				if !ok || o != t || fl != flagField {
					return
				}
				if bv, isB := constBool(st.Val); !isB || !bv {
					return
				}
				ended := false
				for _, a := range dominatingAtoms(st.Block()) {
					// fetched key == nil
					if a.Op == token.EQL && isNilConst(a.Y) {
						if ex, ok := a.X.(*ssa.Extract); ok && ex.Tuple == ssa.Value(fetch) {
							ended = true
						}
					}
					// region test on the fetched key
					if c, ok := a.X.(*ssa.Call); ok {
						switch p.calleeName(&c.Call) {
						case "bytes.Compare", "bytes.HasPrefix":
							ended = true
						default:
							if h := c.Call.StaticCallee(); h != nil && p.InPkg(h) {
								if _, _, ok := p.predicateCore(h, "bytes.Compare"); ok {
									ended = true
								}
								if _, _, ok := p.predicateCore(h, "bytes.HasPrefix"); ok {
									ended = true
								}
							}
						}
					}
				}
				if !ended {
					early = p.InstrPos(st)
				}
			})
			r.add(early == "", fmt.Sprintf("%s.%s|only-at-end", tn, mn), p.Pos(fn.Pos()), firstNonEmpty(map[bool]string{true: "the region flag is set at " + early + " although neither the cursor nor the region ended there (a full batch is not the end of the scan): every later call returns nothing"}[early != ""], "the region flag is set only where the cursor or the region ended"))
			// (c) never set back here
			n++
			reset := ""
			for _, f2 := range []*ssa.Function{fn, outer} {
				allInstrs(f2, func(in ssa.Instruction) {
					if st, ok := in.(*ssa.Store); ok {
						if o, fl, _, ok := fieldOfAddr(st.Addr); ok && o == t && fl == flagField {
							if bv, isB := constBool(st.Val); !isB || !bv {
								reset = p.InstrPos(st)
							}
						}
					}
				})
			}
			r.add(reset == "", fmt.Sprintf("%s.%s|no-reset", tn, mn), p.Pos(fn.Pos()), firstNonEmpty(map[bool]string{true: "the region flag is set back at " + reset}[reset != ""], "the region flag is only ever set"))
		}
		// Init resets
		if init := p.Method(t, "Init"); init != nil && flagField != "" {
			n++
			resets := false
			allInstrs(init, func(in ssa.Instruction) {
				if st, ok := in.(*ssa.Store); ok {
					if o, fl, _, ok := fieldOfAddr(st.Addr); ok && o == t && fl == flagField {
						if bv, isB := constBool(st.Val); isB && !bv {
							resets = true
						}
					}
				}
			})
			r.add(resets, tn+".Init|reset", p.Pos(init.Pos()), "Init clears the region flag (a re-initialised plan scans again)")
		}
	}
	r.floor("region typestate obligations", n, 12)
}

// isColumnOfColumnList: v is an element loaded from a [][]any of a function that stores ExecuteBatch results into the
// elements of a [][]any (the evaluated elements of a list literal: one operand column per element).
func isColumnOfColumnList(fn *ssa.Function, v ssa.Value) bool {
	ld, ok := v.(*ssa.UnOp)
	if !ok || ld.Op != token.MUL {
		return false
	}
	ea, ok := ld.X.(*ssa.IndexAddr)
	if !ok {
		return false
	}
	isColList := func(t types.Type) bool {
		sl, ok := t.Underlying().(*types.Slice)
		if !ok {
			return false
		}
		in, ok := sl.Elem().Underlying().(*types.Slice)
		if !ok {
			return false
		}
		it, ok := in.Elem().Underlying().(*types.Interface)
		return ok && it.Empty()
	}
	if !isColList(ea.X.Type()) {
		return false
	}
	stores := false
	allInstrs(fn, func(in ssa.Instruction) {
		switch x := in.(type) {
		case *ssa.Store:
			if a, ok := x.Addr.(*ssa.IndexAddr); ok && isColList(a.X.Type()) && derivesFromNoElem(x.Val, isExecuteBatchResult) {
				stores = true
			}
		case *ssa.Call:
			if b, ok := x.Call.Value.(*ssa.Builtin); ok && b.Name() == "append" && len(x.Call.Args) == 2 && isColList(x.Call.Args[0].Type()) {
				if mentions(x.Call.Args[1], isExecuteBatchResult, 6) {
					stores = true
				}
			}
		}
	})
	return stores
}
