package main

import (
	"go/token"
	"go/types"

	"golang.org/x/tools/go/ssa"
)

// A small abstract evaluator for "constant propagation of one assumed fact through the
// branch conditions of a function and of the package helpers it calls". Values are
// three-valued Booleans, known integers, and errors known to be nil / non-nil. Phis are
// joined over the predecessor blocks reachable under the assumption; calls to package helpers
// are summarised by evaluating the helper under the corresponding assumption on its
// parameters. Nothing is executed.

type abool int // 0 unknown (both), 1 false, 2 true

const (
	abBoth  abool = 0
	abFalse abool = 1
	abTrue  abool = 2
)

type aval struct {
	kind  int // 0 unknown, 1 int, 2 bool, 3 error
	i     int64
	b     abool
	isNil abool // error: abTrue = nil, abFalse = non-nil
}

func (a aval) join(b aval) aval {
	if a.kind != b.kind {
		return aval{}
	}
	switch a.kind {
	case 1:
		if a.i == b.i {
			return a
		}
		return aval{}
	case 2:
		if a.b == b.b {
			return a
		}
		return aval{kind: 2, b: abBoth}
	case 3:
		if a.isNil == b.isNil {
			return a
		}
		return aval{kind: 3, isNil: abBoth}
	}
	return aval{}
}

// assumption: how leaf values are known.
type assumption struct {
	p *Prog
	// leaf gives the value of an SSA value directly (e.g. a field load or a ReturnType call on the assumed operand)
	leaf func(fn *ssa.Function, v ssa.Value, bound map[*ssa.Parameter]string) (aval, bool)
	// typeTest decides a comma-ok type assertion (ok result), if it can
	typeTest func(fn *ssa.Function, ta *ssa.TypeAssert, bound map[*ssa.Parameter]string) (abool, bool)
	// bind tells which role an argument value plays at a call site (so that the callee's parameter gets that role)
	bind func(fn *ssa.Function, arg ssa.Value, bound map[*ssa.Parameter]string) string
	// ignoreRet (optional): returns that are outside the question asked (e.g. behind a divisor-zero test); they are left out of call summaries
	ignoreRet func(fn *ssa.Function, ret *ssa.Return) bool
	depth     int
}

type absResult struct {
	reached map[*ssa.BasicBlock]bool
	rets    []*ssa.Return
	ev      func(v ssa.Value) aval
}

func (as *assumption) run(fn *ssa.Function, bound map[*ssa.Parameter]string) *absResult {
	reached := map[*ssa.BasicBlock]bool{}
	type edge struct{ from, to *ssa.BasicBlock }
	taken := map[edge]bool{} // CFG edges that can be taken under the assumption (phis are joined over these)
	if len(fn.Blocks) == 0 {
		return &absResult{reached: reached, ev: func(ssa.Value) aval { return aval{} }}
	}
	var eval func(v ssa.Value, d int) aval
	memoCall := map[*ssa.Call][]aval{}
	eval = func(v ssa.Value, d int) aval {
		if d > 12 {
			return aval{}
		}
		if lv, ok := as.leaf(fn, v, bound); ok {
			return lv
		}
		switch x := v.(type) {
		case *ssa.Const:
			if bv, ok := constBool(x); ok {
				if bv {
					return aval{kind: 2, b: abTrue}
				}
				return aval{kind: 2, b: abFalse}
			}
			if iv, ok := constInt(x); ok {
				return aval{kind: 1, i: iv}
			}
			if x.Value == nil && isErrorType(x.Type()) {
				return aval{kind: 3, isNil: abTrue}
			}
			return aval{}
		case *ssa.Phi:
			var out aval
			first := true
			for i, e := range x.Edges {
				if !taken[edge{x.Block().Preds[i], x.Block()}] {
					continue
				}
				ev := eval(e, d+1)
				if first {
					out, first = ev, false
				} else {
					out = out.join(ev)
				}
			}
			return out
		case *ssa.UnOp:
			if x.Op == token.NOT {
				o := eval(x.X, d+1)
				if o.kind == 2 && o.b != abBoth {
					return aval{kind: 2, b: 3 - o.b}
				}
				if o.kind == 2 {
					return o
				}
			}
			return aval{}
		case *ssa.BinOp:
			if x.Op != token.EQL && x.Op != token.NEQ {
				return aval{}
			}
			l, r := eval(x.X, d+1), eval(x.Y, d+1)
			var eq abool = abBoth
			switch {
			case l.kind == 1 && r.kind == 1:
				if l.i == r.i {
					eq = abTrue
				} else {
					eq = abFalse
				}
			case l.kind == 2 && r.kind == 2 && l.b != abBoth && r.b != abBoth:
				if l.b == r.b {
					eq = abTrue
				} else {
					eq = abFalse
				}
			case l.kind == 3 && isNilConst(x.Y):
				eq = l.isNil
			case r.kind == 3 && isNilConst(x.X):
				eq = r.isNil
			}
			if eq == abBoth {
				return aval{kind: 2, b: abBoth}
			}
			if x.Op == token.NEQ {
				eq = 3 - eq
			}
			return aval{kind: 2, b: eq}
		case *ssa.MakeInterface:
			if isErrorType(x.Type()) {
				return aval{kind: 3, isNil: abFalse}
			}
			return eval(x.X, d+1)
		case *ssa.ChangeInterface:
			return eval(x.X, d+1)
		case *ssa.Extract:
			switch t := x.Tuple.(type) {
			case *ssa.TypeAssert:
				if x.Index == 1 && as.typeTest != nil {
					if r, ok := as.typeTest(fn, t, bound); ok {
						return aval{kind: 2, b: r}
					}
				}
				return aval{kind: 2, b: abBoth}
			case *ssa.Call:
				rs := as.callSummary(fn, t, bound, memoCall)
				if x.Index < len(rs) {
					return rs[x.Index]
				}
			}
			return aval{}
		case *ssa.Call:
			rs := as.callSummary(fn, x, bound, memoCall)
			if len(rs) == 1 {
				return rs[0]
			}
			// constructors of error values return non-nil errors
			if isErrorType(x.Type()) {
				if g := x.Call.StaticCallee(); g != nil && (g.Name() == "NewSyntaxError" || g.Name() == "NewExecuteError" || as.p.qualName(g) == "fmt.Errorf" || as.p.qualName(g) == "errors.New") {
					return aval{kind: 3, isNil: abFalse}
				}
			}
			return aval{}
		}
		return aval{}
	}
	changed := true
	for changed {
		changed = false
		seen := map[*ssa.BasicBlock]bool{}
		var walk func(b *ssa.BasicBlock)
		walk = func(b *ssa.BasicBlock) {
			if seen[b] {
				return
			}
			seen[b] = true
			if !reached[b] {
				reached[b] = true
				changed = true
			}
			take := func(s *ssa.BasicBlock) {
				if !taken[edge{b, s}] {
					taken[edge{b, s}] = true
					changed = true
				}
				walk(s)
			}
			if f := ifOf(b); f != nil {
				c := eval(f.Cond, 0)
				if c.kind == 2 && c.b == abTrue {
					take(b.Succs[0])
					return
				}
				if c.kind == 2 && c.b == abFalse {
					take(b.Succs[1])
					return
				}
			}
			for _, s := range b.Succs {
				take(s)
			}
		}
		walk(fn.Blocks[0])
	}
	res := &absResult{reached: reached, ev: func(v ssa.Value) aval { return eval(v, 0) }}
	for _, b := range fn.Blocks {
		if reached[b] {
			if r := retOf(b); r != nil {
				res.rets = append(res.rets, r)
			}
		}
	}
	return res
}

// callSummary evaluates a package helper under the assumption transported to its parameters and joins
// the values of its reachable returns.
func (as *assumption) callSummary(fn *ssa.Function, c *ssa.Call, bound map[*ssa.Parameter]string, memo map[*ssa.Call][]aval) []aval {
	if rs, ok := memo[c]; ok {
		return rs
	}
	memo[c] = nil
	g := c.Call.StaticCallee()
	if g == nil || !as.p.InPkg(g) || len(g.Blocks) == 0 || as.depth > 3 {
		return nil
	}
	nb := map[*ssa.Parameter]string{}
	any := false
	for i, a := range c.Call.Args {
		if i < len(g.Params) && as.bind != nil {
			if role := as.bind(fn, a, bound); role != "" {
				nb[g.Params[i]] = role
				any = true
			}
		}
	}
	if !any {
		return nil
	}
	sub := *as
	sub.depth = as.depth + 1
	res := sub.run(g, nb)
	nres := g.Signature.Results().Len()
	out := make([]aval, nres)
	firstAt := make([]bool, nres)
	for i := range firstAt {
		firstAt[i] = true
	}
	// (value, error) results: the value of a failing return is not a value of the call - callers read it only
	// after testing the error (the Go convention; joining it in would lose the correlation value <-> success)
	errIdx := -1
	if nres >= 2 && isErrorType(g.Signature.Results().At(nres-1).Type()) {
		errIdx = nres - 1
	}
	any2 := false
	for _, r := range res.rets {
		if as.ignoreRet != nil && as.ignoreRet(g, r) {
			continue
		}
		failing := false
		if errIdx >= 0 && errIdx < len(r.Results) {
			if ev := res.ev(retVal(r, errIdx)); ev.kind == 3 && ev.isNil == abFalse {
				failing = true
			}
		}
		any2 = true
		for i := 0; i < nres && i < len(r.Results); i++ {
			if failing && i != errIdx {
				continue
			}
			v := res.ev(retVal(r, i))
			if v.kind == 0 && isErrorType(g.Signature.Results().At(i).Type()) {
				v = aval{kind: 3, isNil: abBoth}
			}
			if bt, ok := g.Signature.Results().At(i).Type().Underlying().(*types.Basic); ok && bt.Kind() == types.Bool && v.kind == 0 {
				v = aval{kind: 2, b: abBoth}
			}
			if firstAt[i] {
				out[i] = v
				firstAt[i] = false
			} else {
				out[i] = out[i].join(v)
			}
		}
	}
	if !any2 {
		return nil
	}
	memo[c] = out
	return out
}
