package main

import (
	"fmt"
	"go/token"
	"go/types"
	"sort"

	"golang.org/x/tools/go/ssa"
)

func init() {
	register("WORDRESET", "pairing rule on the scanner's pending-word record (start index, length, start offset, in-string flag), decided per arm on the phis where all arms of the scan loop merge: (i) an arm that leaves the length 0 outside string mode moves start index and start offset to i+1; (ii) an arm that enters string mode leaves length 0 (the pending word was emitted), start index i+1 and start offset i; (iii) any other arm leaves start index and start offset untouched (a lazy re-arm is accepted only under length == 0 outside string mode)", ruleWordReset)
}

// aff is a value written as base + off (off folds constant integer additions).
type aff struct {
	base ssa.Value
	off  int64
}

func affOf(v ssa.Value) aff {
	a := aff{base: v}
	for {
		bo, ok := a.base.(*ssa.BinOp)
		if !ok {
			return a
		}
		c, isC := constInt(bo.Y)
		if !isC {
			return a
		}
		switch bo.Op {
		case token.ADD:
			a.off += c
		case token.SUB:
			a.off -= c
		default:
			return a
		}
		a.base = bo.X
	}
}

// scanLeaf is one way round the scan loop: the values the header phis receive for the next iteration, taken on
// the last edge where the ways still differ (merge phis between the arms and the back edge are expanded, so an
// arm that leaves through `continue` is a leaf of its own).
type scanLeaf struct {
	pred, to *ssa.BasicBlock
	val      map[*ssa.Phi]aff
}

func scanLeaves(L *Loop, backIdx int) []scanLeaf {
	H := L.Header
	start := map[*ssa.Phi]aff{}
	for _, in := range H.Instrs {
		if ph, ok := in.(*ssa.Phi); ok {
			start[ph] = affOf(ph.Edges[backIdx])
		}
	}
	var out []scanLeaf
	var expand func(pred, to *ssa.BasicBlock, val map[*ssa.Phi]aff, depth int)
	expand = func(pred, to *ssa.BasicBlock, val map[*ssa.Phi]aff, depth int) {
		hasPhiIn := func(b *ssa.BasicBlock) bool {
			for _, a := range val {
				if ph, ok := a.base.(*ssa.Phi); ok && ph.Block() == b {
					return true
				}
			}
			return false
		}
		b := pred
		for depth < 6 {
			if b == H {
				break
			}
			if hasPhiIn(b) {
				for k, pp := range b.Preds {
					nv := map[*ssa.Phi]aff{}
					for h, a := range val {
						if ph, ok := a.base.(*ssa.Phi); ok && ph.Block() == b {
							na := affOf(ph.Edges[k])
							na.off += a.off
							nv[h] = na
						} else {
							nv[h] = a
						}
					}
					expand(pp, b, nv, depth+1)
				}
				return
			}
			if len(b.Preds) == 1 {
				b = b.Preds[0]
				continue
			}
			break
		}
		out = append(out, scanLeaf{pred, to, val})
	}
	expand(H.Preds[backIdx], H, start, 0)
	return out
}

// isNextChar: the look-ahead character, Query[i+1] (or a constant past the end).
func isNextChar(p *Prog, v ssa.Value, idx ssa.Value) bool {
	ph, ok := v.(*ssa.Phi)
	if !ok {
		return false
	}
	found := false
	for _, e := range ph.Edges {
		var x, ix ssa.Value
		switch lk := e.(type) {
		case *ssa.Lookup:
			x, ix = lk.X, lk.Index
		case *ssa.Index:
			x, ix = lk.X, lk.Index
		case *ssa.Const:
			continue
		default:
			return false
		}
		a := affOf(ix)
		if a.base != idx || a.off != 1 || !p.derivesFromField(x, "Lexer", "Query", traceOpts{}) {
			return false
		}
		found = true
	}
	return found
}

func ruleWordReset(p *Prog, r *Result) {
	fn := p.MethodByName("Lexer", "Split")
	bt := p.Func("buildToken")
	if fn == nil || bt == nil {
		r.undecided("anchor: (*Lexer).Split / buildToken not found")
		return
	}
	loops := naturalLoops(fn)
	var L *Loop
	for _, l := range loops {
		if L == nil || len(l.Body) > len(L.Body) {
			L = l
		}
	}
	if L == nil {
		r.undecided("anchor: scan loop not found")
		return
	}
	H := L.Header
	// back-edge predecessor index of the header
	backIdx := -1
	for i, pr := range H.Preds {
		if L.Body[pr] {
			if backIdx >= 0 {
				r.undecided("scan loop has several back edges; the per-arm merge block cannot be identified")
				return
			}
			backIdx = i
		}
	}
	if backIdx < 0 {
		r.undecided("scan loop back edge not found")
		return
	}
	var hI, hStr, hLen, hStart, hPos *ssa.Phi
	for _, in := range H.Instrs {
		ph, ok := in.(*ssa.Phi)
		if !ok {
			continue
		}
		bk, isB := ph.Type().Underlying().(*types.Basic)
		if !isB {
			continue
		}
		if bk.Kind() == types.Bool {
			hStr = ph
			continue
		}
		if bk.Kind() != types.Int {
			continue
		}
		// roles by use
		for _, ref := range *ph.Referrers() {
			switch x := ref.(type) {
			case *ssa.Index:
				if x.Index == ssa.Value(ph) {
					hI = ph
				}
			case *ssa.Lookup:
				if x.Index == ssa.Value(ph) {
					hI = ph
				}
			case *ssa.Slice:
				if x.Low == ssa.Value(ph) {
					hStart = ph
				}
			case *ssa.Call:
				if x.Call.StaticCallee() == bt && len(x.Call.Args) == 2 && x.Call.Args[1] == ssa.Value(ph) {
					hPos = ph
				}
				// the cut may live in a helper: l.pending(tokStart, tokLen) slicing the query at its parameter
				if g := x.Call.StaticCallee(); g != nil && g != bt && p.InPkg(g) && len(g.Blocks) > 0 {
					for k, a := range x.Call.Args {
						if a != ssa.Value(ph) || k >= len(g.Params) {
							continue
						}
						allInstrs(g, func(gi ssa.Instruction) {
							if sl, ok := gi.(*ssa.Slice); ok && sl.Low == ssa.Value(g.Params[k]) {
								hStart = ph
							}
						})
					}
				}
			}
		}
	}
	leaves := scanLeaves(L, backIdx)
	// length: header int phi that some way round the loop resets to 0 and another increments
	for _, in := range H.Instrs {
		ph, ok := in.(*ssa.Phi)
		if !ok || ph == hI || ph == hStart || ph == hPos {
			continue
		}
		if bk, isB := ph.Type().Underlying().(*types.Basic); !isB || bk.Kind() != types.Int {
			continue
		}
		zero, inc := false, false
		for _, lf := range leaves {
			a := lf.val[ph]
			if k, ok := constInt(a.base); ok && k+a.off == 0 {
				zero = true
			}
			if a.base == ssa.Value(ph) && a.off == 1 {
				inc = true
			}
		}
		if zero && inc {
			hLen = ph
		}
	}
	if hI == nil || hStr == nil || hLen == nil || hStart == nil || hPos == nil {
		r.undecided("scanner state variables could not be identified by their uses (index %v, in-string %v, length %v, start %v, offset %v)", hI != nil, hStr != nil, hLen != nil, hStart != nil, hPos != nil)
		return
	}
	if len(leaves) < 2 {
		r.undecided("the scanner's arms do not merge in phis carrying the state variables")
		return
	}
	// the flush at the end of the input: what is pending when the query ends inside a quoted literal is the content
	// of that literal, not a word - it must not go through the word classifier (which folds case and turns `key`,
	// `1`, `limit` into keywords and numbers). Every buildToken call behind the loop sits under `not in a literal`
	nEnd := 0
	allInstrs(fn, func(in ssa.Instruction) {
		c, ok := in.(*ssa.Call)
		if !ok || c.Call.StaticCallee() != bt || L.Body[in.Block()] {
			return
		}
		nEnd++
		outside := false
		for _, a := range dominatingAtoms(in.Block()) {
			if a.X != ssa.Value(hStr) {
				continue
			}
			if bv, isB := constBool(a.Y); isB && ((a.Op == token.EQL) == bv) == false {
				outside = true
			}
		}
		r.add(outside, fmt.Sprintf("end-flush#%d|outside-literal", nEnd), p.InstrPos(in), "the pending bytes are classified as a word at the end of the input only when the scanner is not inside a quoted literal")
	})
	// which ways round the loop can be taken in string mode / outside it: the branch conditions on the in-string flag
	// and on the current character are decided along the way (an early `if strStart && char != quote { ...; continue }`
	// leaves the arms of ordinary characters reachable only outside string mode)
	var charV ssa.Value
	allInstrs(fn, func(in ssa.Instruction) {
		var ix ssa.Value
		switch lk := in.(type) {
		case *ssa.Lookup:
			ix = lk.Index
		case *ssa.Index:
			ix = lk.Index
		default:
			return
		}
		if ix == ssa.Value(hI) && charV == nil {
			charV = in.(ssa.Value)
		}
	})
	type edgeKey struct{ from, to *ssa.BasicBlock }
	reachUnder := func(inStr bool) map[edgeKey]bool {
		out := map[edgeKey]bool{}
		type st struct {
			b   *ssa.BasicBlock
			key string
		}
		seen := map[st]bool{}
		var walk func(b *ssa.BasicBlock, known int64, hasKnown bool, excl []int64)
		walk = func(b *ssa.BasicBlock, known int64, hasKnown bool, excl []int64) {
			k := st{b, fmt.Sprint(known, hasKnown, excl)}
			if seen[k] {
				return
			}
			seen[k] = true
			take := func(si int, kn int64, hk bool, ex []int64) {
				sc := b.Succs[si]
				out[edgeKey{b, sc}] = true
				if sc == H || !L.Body[sc] {
					return
				}
				walk(sc, kn, hk, ex)
			}
			f := ifOf(b)
			if f == nil {
				for si := range b.Succs {
					take(si, known, hasKnown, excl)
				}
				return
			}
			a, ok := condAtom(f.Cond, true)
			if ok && a.X == ssa.Value(hStr) {
				if bv, isB := constBool(a.Y); isB {
					truth := ((a.Op == token.EQL) == bv) == inStr
					if truth {
						take(0, known, hasKnown, excl)
					} else {
						take(1, known, hasKnown, excl)
					}
					return
				}
			}
			if ok && charV != nil && a.X == charV && (a.Op == token.EQL || a.Op == token.NEQ) {
				if c, isC := constInt(a.Y); isC {
					eqIdx, neIdx := 0, 1
					if a.Op == token.NEQ {
						eqIdx, neIdx = 1, 0
					}
					excluded := false
					for _, e := range excl {
						if e == c {
							excluded = true
						}
					}
					if (!hasKnown || known == c) && !excluded {
						take(eqIdx, c, true, nil)
					}
					if !hasKnown {
						ne := append(append([]int64{}, excl...), c)
						sort.Slice(ne, func(i, j int) bool { return ne[i] < ne[j] })
						take(neIdx, 0, false, ne)
					} else if known != c {
						take(neIdx, known, true, nil)
					}
					return
				}
			}
			take(0, known, hasKnown, excl)
			take(1, known, hasKnown, excl)
		}
		walk(H, 0, false, nil)
		return out
	}
	inStrEdges, outStrEdges := reachUnder(true), reachUnder(false)
	nEdges := 0
	for j, lf := range leaves {
		nEdges++
		pred := lf.pred
		sv, lv, stv, pv, iv := lf.val[hStr], lf.val[hLen], lf.val[hStart], lf.val[hPos], lf.val[hI]
		atoms := edgeAtoms(pred, lf.to)
		desc := fmt.Sprintf("arm ending at %s", p.InstrPos(pred.Instrs[len(pred.Instrs)-1]))
		key := fmt.Sprintf("arm#%02d", j+1)
		at := p.InstrPos(pred.Instrs[len(pred.Instrs)-1])
		// the index advances by one byte, or by two when the arm tested the look-ahead character (and consumed it)
		look := false
		for _, a := range atoms {
			if a.Op == token.EQL && isNextChar(p, a.X, hI) {
				if _, ok := constInt(a.Y); ok {
					look = true
				}
			}
		}
		advOK := iv.base == ssa.Value(hI) && (iv.off == 1 || (iv.off == 2 && look))
		if !advOK || iv.off != 1 {
			r.add(advOK, key+"|advance", at, desc+": the scan index advances by one byte per iteration (two only in an arm that matched the look-ahead character and emitted both bytes as one token)")
		}
		// i+1 of this way round the loop: the index of the next iteration
		isNext := func(v aff) bool { return v.base == ssa.Value(hI) && v.off == iv.off }
		same := func(v aff, h *ssa.Phi) bool { return v.base == ssa.Value(h) && v.off == 0 }
		// in-string status before / after this arm
		before := 0 // 1 in string, -1 outside, 0 unknown
		for _, a := range atoms {
			if a.X == ssa.Value(hStr) {
				if bv, isB := constBool(a.Y); isB {
					if (a.Op == token.EQL) == bv {
						before = 1
					} else {
						before = -1
					}
				}
			}
		}
		if before == 0 {
			ek := edgeKey{pred, lf.to}
			switch {
			case inStrEdges[ek] && !outStrEdges[ek]:
				before = 1
			case outStrEdges[ek] && !inStrEdges[ek]:
				before = -1
			}
		}
		after := before
		if bv, isB := constBool(sv.base); isB {
			if bv {
				after = 1
			} else {
				after = -1
			}
		} else if sv.base != ssa.Value(hStr) {
			after = 0
		}
		lenZero := false
		if k, ok := constInt(lv.base); ok && k+lv.off == 0 {
			lenZero = true
		}
		lenWasZero := false
		for _, a := range atoms {
			if a.X == ssa.Value(hLen) && a.Op == token.EQL {
				if k, ok := constInt(a.Y); ok && k == 0 {
					lenWasZero = true
				}
			}
		}
		switch {
		case after == 1 && before == -1:
			// (ii) entering string mode
			okv := lenZero && isNext(stv) && pv.base == ssa.Value(hI) && pv.off == iv.off-1
			r.add(okv, key+"|enter-string", at, desc+": entering a quoted literal must leave length 0 (pending word emitted), start = i+1, offset = i")
		case after == -1 && lenZero:
			// (i) a token/word boundary outside string mode
			okv := isNext(stv) && isNext(pv)
			r.add(okv, key+"|boundary", at, desc+": after a boundary (length reset to 0 outside a literal) the next word starts at i+1: start index and start offset must both be i+1")
		default:
			// (iii) inside a word or a literal: start/offset untouched, unless lazily armed on the first character of a word
			keep := same(stv, hStart) && same(pv, hPos)
			lazy := before == -1 && lenWasZero && (same(stv, hI) || same(stv, hStart)) && (same(pv, hI) || same(pv, hPos))
			r.add(keep || lazy, key+"|inside", at, desc+": inside a word or literal the recorded start index and start offset must not move")
		}
	}
	r.note("arms", nEdges)
	r.floor("arms merging into the scanner's state", nEdges, 8)
}
