package main

import (
	"fmt"
	"go/token"
	"go/types"

	"golang.org/x/tools/go/ssa"
)

func init() {
	register("WORDRESET", "pairing rule on the scanner's pending-word record (start index, length, start offset, in-string flag), decided per arm on the phis where all arms of the scan loop merge: (i) an arm that leaves the length 0 outside string mode moves start index and start offset to i+1; (ii) an arm that enters string mode leaves length 0 (the pending word was emitted), start index i+1 and start offset i; (iii) any other arm leaves start index and start offset untouched (a lazy re-arm is accepted only under length == 0 outside string mode)", ruleWordReset)
}

func ruleWordReset(p *Prog, r *Result) {
	fn := p.MethodByName("Lexer", "Split")
	bt := p.Func("buildToken")
	if fn == nil || bt == nil {
		r.undecided("anchor: (*Lexer).Split / buildToken not found")
		return
	}
	loops := naturalLoops(fn)
	var L *Loop
	for _, l := range loops {
		if L == nil || len(l.Body) > len(L.Body) {
			L = l
		}
	}
	if L == nil {
		r.undecided("anchor: scan loop not found")
		return
	}
	H := L.Header
	// back-edge predecessor index of the header
	backIdx := -1
	for i, pr := range H.Preds {
		if L.Body[pr] {
			if backIdx >= 0 {
				r.undecided("scan loop has several back edges; the per-arm merge block cannot be identified")
				return
			}
			backIdx = i
		}
	}
	if backIdx < 0 {
		r.undecided("scan loop back edge not found")
		return
	}
	var hI, hStr, hLen, hStart, hPos *ssa.Phi
	for _, in := range H.Instrs {
		ph, ok := in.(*ssa.Phi)
		if !ok {
			continue
		}
		bk, isB := ph.Type().Underlying().(*types.Basic)
		if !isB {
			continue
		}
		if bk.Kind() == types.Bool {
			hStr = ph
			continue
		}
		if bk.Kind() != types.Int {
			continue
		}
		// roles by use
		for _, ref := range *ph.Referrers() {
			switch x := ref.(type) {
			case *ssa.Index:
				if x.Index == ssa.Value(ph) {
					hI = ph
				}
			case *ssa.Lookup:
				if x.Index == ssa.Value(ph) {
					hI = ph
				}
			case *ssa.Slice:
				if x.Low == ssa.Value(ph) {
					hStart = ph
				}
			case *ssa.Call:
				if x.Call.StaticCallee() == bt && len(x.Call.Args) == 2 && x.Call.Args[1] == ssa.Value(ph) {
					hPos = ph
				}
				// the cut may live in a helper: l.pending(tokStart, tokLen) slicing the query at its parameter
				if g := x.Call.StaticCallee(); g != nil && g != bt && p.InPkg(g) && len(g.Blocks) > 0 {
					for k, a := range x.Call.Args {
						if a != ssa.Value(ph) || k >= len(g.Params) {
							continue
						}
						allInstrs(g, func(gi ssa.Instruction) {
							if sl, ok := gi.(*ssa.Slice); ok && sl.Low == ssa.Value(g.Params[k]) {
								hStart = ph
							}
						})
					}
				}
			}
		}
	}
	// length: header int phi whose back value has a const-0 edge and an increment edge
	for _, in := range H.Instrs {
		ph, ok := in.(*ssa.Phi)
		if !ok || ph == hI || ph == hStart || ph == hPos {
			continue
		}
		if bk, isB := ph.Type().Underlying().(*types.Basic); !isB || bk.Kind() != types.Int {
			continue
		}
		if v, ok := ph.Edges[backIdx].(*ssa.Phi); ok {
			zero, inc := false, false
			for _, e := range v.Edges {
				if k, ok := constInt(e); ok && k == 0 {
					zero = true
				}
				if bo, ok := e.(*ssa.BinOp); ok && bo.Op == token.ADD && bo.X == ssa.Value(ph) {
					inc = true
				}
			}
			if zero && inc {
				hLen = ph
			}
		}
	}
	if hI == nil || hStr == nil || hLen == nil || hStart == nil || hPos == nil {
		r.undecided("scanner state variables could not be identified by their uses (index %v, in-string %v, length %v, start %v, offset %v)", hI != nil, hStr != nil, hLen != nil, hStart != nil, hPos != nil)
		return
	}
	vStr, ok1 := hStr.Edges[backIdx].(*ssa.Phi)
	vLen, ok2 := hLen.Edges[backIdx].(*ssa.Phi)
	vStart, ok3 := hStart.Edges[backIdx].(*ssa.Phi)
	vPos, ok4 := hPos.Edges[backIdx].(*ssa.Phi)
	if !ok1 || !ok2 || !ok3 || !ok4 || vStr.Block() != vLen.Block() || vLen.Block() != vStart.Block() || vStart.Block() != vPos.Block() {
		r.undecided("the scanner's arms do not merge in one block carrying the four state variables")
		return
	}
	M := vLen.Block()
	isNext := func(v ssa.Value) bool { // i + 1
		bo, ok := v.(*ssa.BinOp)
		if !ok || bo.Op != token.ADD || bo.X != ssa.Value(hI) {
			return false
		}
		k, ok := constInt(bo.Y)
		return ok && k == 1
	}
	nEdges := 0
	for j, pred := range M.Preds {
		nEdges++
		sv, lv, stv, pv := vStr.Edges[j], vLen.Edges[j], vStart.Edges[j], vPos.Edges[j]
		atoms := edgeAtoms(pred, M)
		// in-string status before / after this arm
		before := 0 // 1 in string, -1 outside, 0 unknown
		for _, a := range atoms {
			if a.X == ssa.Value(hStr) {
				if bv, isB := constBool(a.Y); isB {
					if (a.Op == token.EQL) == bv {
						before = 1
					} else {
						before = -1
					}
				}
			}
		}
		after := before
		if bv, isB := constBool(sv); isB {
			if bv {
				after = 1
			} else {
				after = -1
			}
		} else if sv != ssa.Value(hStr) {
			after = 0
		}
		lenZero := false
		if k, ok := constInt(lv); ok && k == 0 {
			lenZero = true
		}
		lenWasZero := false
		for _, a := range atoms {
			if a.X == ssa.Value(hLen) && a.Op == token.EQL {
				if k, ok := constInt(a.Y); ok && k == 0 {
					lenWasZero = true
				}
			}
		}
		desc := fmt.Sprintf("arm ending at %s", p.InstrPos(pred.Instrs[len(pred.Instrs)-1]))
		key := fmt.Sprintf("arm#%02d", j+1)
		switch {
		case after == 1 && before == -1:
			// (ii) entering string mode
			okv := lenZero && isNext(stv) && pv == ssa.Value(hI)
			r.add(okv, key+"|enter-string", p.InstrPos(pred.Instrs[len(pred.Instrs)-1]), desc+": entering a quoted literal must leave length 0 (pending word emitted), start = i+1, offset = i")
		case after == -1 && lenZero:
			// (i) a token/word boundary outside string mode
			okv := isNext(stv) && isNext(pv)
			r.add(okv, key+"|boundary", p.InstrPos(pred.Instrs[len(pred.Instrs)-1]), desc+": after a boundary (length reset to 0 outside a literal) the next word starts at i+1: start index and start offset must both be i+1")
		default:
			// (iii) inside a word or a literal: start/offset untouched, unless lazily armed on the first character of a word
			keep := stv == ssa.Value(hStart) && pv == ssa.Value(hPos)
			lazy := before == -1 && lenWasZero && (stv == ssa.Value(hI) || stv == ssa.Value(hStart)) && (pv == ssa.Value(hI) || pv == ssa.Value(hPos))
			r.add(keep || lazy, key+"|inside", p.InstrPos(pred.Instrs[len(pred.Instrs)-1]), desc+": inside a word or literal the recorded start index and start offset must not move")
		}
	}
	r.note("arms", nEdges)
	r.floor("arms merging into the scanner's state", nEdges, 8)
}
