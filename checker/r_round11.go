package main

// Rules added after the eleventh round of independent breakages (the round that was told a structural checker
// exists and asked for value-level changes). Each rule is the part of such a change that is still visible in the
// shape of the code: a constant argument, the field a test reads, the bound of a loop, the element type under len.

import (
	"fmt"
	"go/token"
	"go/types"
	"sort"
	"strings"

	"golang.org/x/tools/go/ssa"
)

func init() {
	register("FLOATFMT", "a float64 is rendered with all its digits: every call of strconv.FormatFloat / strconv.AppendFloat whose value is not a conversion from float32 passes the constant bit size 64 (with 32 the shortest text identifies the nearest float32: two different float64 values print alike, and the printed text reads back as another number)", ruleFloatFmt)
	register("MAKEAPPEND", "a slice that is filled by append starts empty: a make([]T, n) with a length that is not the constant 0, whose result (through phis, re-slicing and append) is only ever appended to - never written by index, copied into, stored or handed to a call - holds n zero values in front of what was appended", ruleMakeAppend)
	register("PUTKIND", "both sides of a PUT pair are kind-checked: in what (*PutStmt).Validate calls, ReturnType is asked of the pair's Key and of the pair's Value, each result compared with kind constants", rulePutKind)
	register("ARGGUARD", "a loop that checks every element of a slice field (calls Check per element under the loop bound i < len(field)) is not also guarded by a comparison of that length with a constant that fails for some length >= 1: the elements of a one-element list are checked too", ruleArgGuard)
	register("ARITYEXACT", "the argument count is compared with the declared count itself: a comparison between len(Args) and NumArgs in which either side is shifted by a constant must be equivalent to an unshifted comparison (len <= n-1 is len < n; len < n-1 lets a call with one argument too few through)", ruleArityExact)
	register("NAMEFIRST", "a name used for several select fields stands for the first of them everywhere: a function that compares FieldNames[j] with FieldNames[i] for a parameter i to decide whether field i owns its name only looks at earlier fields (the comparison is dominated by j < i, or the answer is j == i)", ruleNameFirst)
	register("STRLENBYTES", "strlen counts bytes: the registered bodies of strlen take len of a string or []byte, and neither convert to []rune nor count runes", ruleStrlenBytes)
	register("CACHEKEY", "a memo is read and written under one key: in a function that calls both GetFieldResult and SetFieldResult, the key arguments are the same access path", ruleCacheKey)
}

// ---------------- FLOATFMT ----------------

func ruleFloatFmt(p *Prog, r *Result) {
	n := 0
	for _, fn := range p.Funcs {
		idx := 0
		allInstrs(fn, func(in ssa.Instruction) {
			c, ok := in.(*ssa.Call)
			if !ok {
				return
			}
			g := c.Call.StaticCallee()
			if g == nil {
				return
			}
			vi, bi := -1, -1
			switch p.qualName(g) {
			case "strconv.FormatFloat":
				vi, bi = 0, 3
			case "strconv.AppendFloat":
				vi, bi = 1, 4
			default:
				return
			}
			if len(c.Call.Args) <= bi {
				return
			}
			n++
			idx++
			key := fmt.Sprintf("%s|format#%d", p.FName(fn), idx)
			from32 := false
			if cv, ok := c.Call.Args[vi].(*ssa.Convert); ok {
				if bt, ok := cv.X.Type().Underlying().(*types.Basic); ok && bt.Kind() == types.Float32 {
					from32 = true
				}
			}
			bits, isC := constInt(c.Call.Args[bi])
			switch {
			case !isC:
				r.add(false, key, p.InstrPos(c), "bit size is not a constant")
			case from32:
				r.add(bits == 32 || bits == 64, key, p.InstrPos(c), "a float32 value rendered with bit size 32 or 64")
			default:
				r.add(bits == 64, key, p.InstrPos(c), fmt.Sprintf("a float64 value rendered with bit size %d (must be 64)", bits))
			}
		})
	}
	r.note("float_formatting_calls", n)
	r.floor("strconv float formatting calls", n, 1)
}

// ---------------- MAKEAPPEND ----------------

func ruleMakeAppend(p *Prog, r *Result) {
	n := 0
	for _, fn := range p.Funcs {
		idx := 0
		allInstrs(fn, func(in ssa.Instruction) {
			ms, ok := in.(*ssa.MakeSlice)
			if !ok {
				return
			}
			family := map[ssa.Value]bool{ms: true}
			appended, written := false, false
			work := []ssa.Value{ms}
			for len(work) > 0 {
				v := work[len(work)-1]
				work = work[:len(work)-1]
				refs := v.Referrers()
				if refs == nil {
					continue
				}
				for _, ref := range *refs {
					switch x := ref.(type) {
					case *ssa.Phi:
						if !family[x] {
							family[x] = true
							work = append(work, x)
						}
					case *ssa.Slice:
						if x.X == v && !family[x] {
							family[x] = true
							work = append(work, x)
						}
					case *ssa.ChangeType:
						if !family[x] {
							family[x] = true
							work = append(work, x)
						}
					case *ssa.IndexAddr:
						if x.X == v {
							// an element address: a store through it (or its escape) fills the slice
							for _, u := range *x.Referrers() {
								switch y := u.(type) {
								case *ssa.Store:
									if y.Addr == ssa.Value(x) {
										written = true
									}
								case *ssa.UnOp:
								default:
									written = true
								}
							}
						}
					case *ssa.Call:
						if b, isB := x.Call.Value.(*ssa.Builtin); isB {
							switch b.Name() {
							case "append":
								if x.Call.Args[0] == v {
									appended = true
									if !family[x] {
										family[x] = true
										work = append(work, x)
									}
								} else {
									written = true // appended to another slice as the elements: read only, but keep quiet
								}
							case "copy":
								if x.Call.Args[0] == v {
									written = true
								}
							case "len", "cap":
							default:
								written = true
							}
						} else {
							written = true // handed to a function
						}
					case *ssa.Store, *ssa.MapUpdate, *ssa.MakeInterface:
						// where the finished slice goes: storing the made slice itself hands it to whoever fills
						// it; storing what came (also) out of an append is only the outlet
						if v == ssa.Value(ms) {
							written = true
						}
					case *ssa.MakeClosure, *ssa.Send, *ssa.Go, *ssa.Defer:
						written = true
					case *ssa.Return, *ssa.Range, *ssa.BinOp, *ssa.DebugRef:
					default:
						written = true
					}
				}
			}
			if !appended {
				return
			}
			n++
			idx++
			key := fmt.Sprintf("%s|make#%d", p.FName(fn), idx)
			if k, isC := constInt(ms.Len); isC && k == 0 {
				r.add(true, key, p.InstrPos(ms), "made with length 0, filled by append")
				return
			}
			r.add(written, key, p.InstrPos(ms), "made with a length that is not the constant 0: "+map[bool]string{true: "also written by index / handed on", false: "only ever appended to - the appended values land behind that many zero values"}[written])
		})
	}
	r.note("slices_made_and_appended_to", n)
	r.floor("made slices filled by append", n, 10)
}

// ---------------- PUTKIND ----------------

func rulePutKind(p *Prog, r *Result) {
	v := p.MethodByName("PutStmt", "Validate")
	if v == nil {
		r.undecided("anchor: (*PutStmt).Validate not found")
		return
	}
	fs := p.staticClosure(v, 3, nil)
	for _, field := range []string{"Key", "Value"} {
		ok, pos := false, p.Pos(v.Pos())
		for _, f := range fs {
			allInstrs(f, func(in ssa.Instruction) {
				c, isC := in.(*ssa.Call)
				if !isC || !c.Call.IsInvoke() || c.Call.Method.Name() != "ReturnType" {
					return
				}
				isPairField := func(v ssa.Value) bool {
					owner, fld, _, lf := loadedField(v)
					return lf && owner != nil && owner.Obj().Name() == "PutKVPair" && fld == field
				}
				recv := c.Call.Value
				match := isPairField(recv)
				if pa, isP := recv.(*ssa.Parameter); isP && !match {
					// a helper asked to judge an expression (requireStrOrNumber(expr)): what the validation hands it
					for pi, q := range f.Params {
						if q != pa {
							continue
						}
						for _, caller := range fs {
							allInstrs(caller, func(x ssa.Instruction) {
								if cc, ok := x.(*ssa.Call); ok && cc.Call.StaticCallee() == f && pi < len(cc.Call.Args) && isPairField(cc.Call.Args[pi]) {
									match = true
								}
							})
						}
					}
				}
				if !match {
					return
				}
				for _, ref := range *c.Referrers() {
					if b, isB := ref.(*ssa.BinOp); isB && (b.Op == token.EQL || b.Op == token.NEQ) {
						if _, k := constInt(b.Y); k {
							ok, pos = true, p.InstrPos(c)
						}
						if _, k := constInt(b.X); k {
							ok, pos = true, p.InstrPos(c)
						}
					}
					// or handed to a package helper that judges a kind (isStrOrNumber(t))
					if hc, isC := ref.(*ssa.Call); isC {
						if g := hc.Call.StaticCallee(); g != nil && p.InPkg(g) {
							ok, pos = true, p.InstrPos(c)
						}
					}
				}
			})
		}
		r.add(ok, "PutKVPair."+field+"|kind-tested", pos, "the kind of the pair's "+field+" is asked and compared with kind constants during validation")
	}
	r.note("functions_examined", p.fnames(fs))
}

// ---------------- ARGGUARD ----------------

func evalCmp(op token.Token, a, b int64) bool {
	switch op {
	case token.EQL:
		return a == b
	case token.NEQ:
		return a != b
	case token.LSS:
		return a < b
	case token.LEQ:
		return a <= b
	case token.GTR:
		return a > b
	case token.GEQ:
		return a >= b
	}
	return true
}

func ruleArgGuard(p *Prog, r *Result) {
	n := 0
	for _, fn := range p.Funcs {
		idx := 0
		seen := map[string]bool{}
		allInstrs(fn, func(in ssa.Instruction) {
			c, ok := in.(*ssa.Call)
			if !ok || !c.Call.IsInvoke() || c.Call.Method.Name() != "Check" {
				return
			}
			atoms := dominatingAtoms(c.Block())
			// loop bounds: i < len(field)
			bound := map[string]bool{}
			lenField := func(v ssa.Value) string {
				lv := lenOf(v)
				if lv == nil {
					return ""
				}
				owner, f, _, ok := loadedField(lv)
				if !ok || owner == nil {
					return ""
				}
				return owner.Obj().Name() + "." + f
			}
			for _, a := range atoms {
				if a.Neg {
					continue
				}
				if f := lenField(a.Y); f != "" && a.Op == token.LSS {
					if _, isK := constInt(a.X); !isK {
						bound[f] = true
					}
				}
				if f := lenField(a.X); f != "" && a.Op == token.GTR {
					if _, isK := constInt(a.Y); !isK {
						bound[f] = true
					}
				}
			}
			for f := range bound {
				if seen[f] {
					continue
				}
				seen[f] = true
				n++
				idx++
				bad := ""
				for _, a := range atoms {
					if a.Neg {
						continue
					}
					x, y, op := a.X, a.Y, a.Op
					if lenField(y) == f {
						x, y, op = y, x, swapOp(op)
					}
					if lenField(x) != f {
						continue
					}
					k, isK := constInt(y)
					if !isK {
						continue
					}
					for _, l := range []int64{1, 2, 3, 1000} {
						if !evalCmp(op, l, k) {
							bad = fmt.Sprintf("the per-element check is only reached when len(%s) %s %d: a list of %d element(s) is not checked", f, op, k, l)
							break
						}
					}
				}
				r.add(bad == "", fmt.Sprintf("%s|%s|every-length", p.FName(fn), f), p.InstrPos(c), firstNonEmpty(bad, "the per-element check runs for every length >= 1"))
			}
		})
		_ = idx
	}
	r.note("element_check_loops", n)
	r.floor("loops checking every element of a slice field", n, 2)
}

// ---------------- ARITYEXACT ----------------

func ruleArityExact(p *Prog, r *Result) {
	isNumLoad := func(v ssa.Value) bool { _, f, _, ok := loadedField(v); return ok && f == "NumArgs" }
	var isNumBase func(v ssa.Value, depth int) bool
	isNumBase = func(v ssa.Value, depth int) bool {
		return mentions(v, func(x ssa.Value) bool {
			if isNumLoad(x) {
				return true
			}
			if pa, ok := x.(*ssa.Parameter); ok && depth > 0 && pa.Parent() != nil {
				g := pa.Parent()
				pi := -1
				for k, q := range g.Params {
					if q == pa {
						pi = k
					}
				}
				found := false
				for _, caller := range p.Funcs {
					allInstrs(caller, func(in ssa.Instruction) {
						c, ok := in.(*ssa.Call)
						if !ok || c.Call.StaticCallee() != g || pi < 0 || pi >= len(c.Call.Args) {
							return
						}
						if isNumBase(c.Call.Args[pi], depth-1) {
							found = true
						}
					})
				}
				return found
			}
			return false
		}, 3)
	}
	isLenArgs := func(v ssa.Value) bool {
		lv := lenOf(v)
		if lv == nil {
			return false
		}
		if sl, ok := lv.Type().Underlying().(*types.Slice); !ok || typeName(sl.Elem()) != "Expression" {
			return false
		}
		return true
	}
	split := func(v ssa.Value) (ssa.Value, int64) {
		if b, ok := v.(*ssa.BinOp); ok {
			switch b.Op {
			case token.ADD:
				if k, isK := constInt(b.Y); isK {
					return b.X, k
				}
				if k, isK := constInt(b.X); isK {
					return b.Y, k
				}
			case token.SUB:
				if k, isK := constInt(b.Y); isK {
					return b.X, -k
				}
			}
		}
		return v, 0
	}
	n := 0
	for _, fn := range p.Funcs {
		idx := 0
		allInstrs(fn, func(in ssa.Instruction) {
			b, ok := in.(*ssa.BinOp)
			if !ok {
				return
			}
			op := b.Op
			switch op {
			case token.EQL, token.NEQ, token.LSS, token.LEQ, token.GTR, token.GEQ:
			default:
				return
			}
			lx, kx := split(b.X)
			ly, ky := split(b.Y)
			var d int64
			switch {
			case isLenArgs(lx) && isNumBase(ly, 2):
				d = ky - kx
			case isLenArgs(ly) && isNumBase(lx, 2):
				d = kx - ky
				op = swapOp(op)
			default:
				return
			}
			n++
			idx++
			good := false
			switch op {
			case token.EQL, token.NEQ:
				good = d == 0
			case token.LSS, token.GEQ:
				good = d == 0 || d == 1
			case token.LEQ, token.GTR:
				good = d == 0 || d == -1
			}
			r.add(good, fmt.Sprintf("%s|arity-exact#%d", p.FName(fn), idx), p.InstrPos(b), fmt.Sprintf("len(args) %s NumArgs%+d: %s", op, d, map[bool]string{true: "equivalent to an unshifted comparison with the declared count", false: "the declared count is shifted: calls with another number of arguments than declared pass"}[good]))
		})
	}
	r.note("arity_comparisons", n)
	r.floor("comparisons of an argument count with NumArgs", n, 3)
}

// ---------------- NAMEFIRST ----------------

func ruleNameFirst(p *Prog, r *Result) {
	n := 0
	for _, fn := range p.Funcs {
		allInstrs(fn, func(in ssa.Instruction) {
			b, ok := in.(*ssa.BinOp)
			if !ok || b.Op != token.EQL {
				return
			}
			nameIdx := func(v ssa.Value) ssa.Value {
				ld, ok := v.(*ssa.UnOp)
				if !ok || ld.Op != token.MUL {
					return nil
				}
				ia, ok := ld.X.(*ssa.IndexAddr)
				if !ok {
					return nil
				}
				if _, f, _, ok := loadedField(ia.X); !ok || f != "FieldNames" {
					return nil
				}
				return ia.Index
			}
			ix, iy := nameIdx(b.X), nameIdx(b.Y)
			if ix == nil || iy == nil {
				return
			}
			var param, other ssa.Value
			if _, isP := iy.(*ssa.Parameter); isP {
				param, other = iy, ix
			} else if _, isP := ix.(*ssa.Parameter); isP {
				param, other = ix, iy
			} else {
				return
			}
			n++
			good := false
			for _, a := range dominatingAtoms(b.Block()) {
				if a.Neg {
					continue
				}
				if (a.X == other && a.Y == param && a.Op == token.LSS) || (a.X == param && a.Y == other && a.Op == token.GTR) {
					good = true
				}
			}
			// or: the answer on equality is `j == i`
			if f := ifOf(b.Block()); f != nil && f.Cond == ssa.Value(b) && len(b.Block().Succs) == 2 {
				if ret := retOf(b.Block().Succs[0]); ret != nil && len(ret.Results) == 1 {
					if e, ok := ret.Results[0].(*ssa.BinOp); ok && e.Op == token.EQL && ((e.X == other && e.Y == param) || (e.X == param && e.Y == other)) {
						good = true
					}
				}
			}
			r.add(good, p.FName(fn)+"|earlier-only", p.InstrPos(b), "field i owns its name unless an EARLIER field has it: the comparison of FieldNames[j] with FieldNames[i] runs under j < i")
		})
	}
	r.note("name_ownership_comparisons", n)
}

// ---------------- STRLENBYTES ----------------

func ruleStrlenBytes(p *Prog, r *Result) {
	rows, err := p.registry("funcMap")
	if err != nil {
		r.undecided("%v", err)
		return
	}
	n := 0
	for _, row := range rows {
		if row.Key != "strlen" {
			continue
		}
		for _, wb := range []struct {
			which string
			body  *ssa.Function
		}{{"Body", row.Body}, {"BodyVec", row.BodyVec}} {
			which, body := wb.which, wb.body
			if body == nil {
				r.add(false, "strlen|"+which+"|bytes", row.Pos, "strlen has no "+which)
				continue
			}
			n++
			byteLen, runes := false, ""
			for _, f := range p.staticClosure(body, 1, func(g *ssa.Function) bool { return g.Name() == "toString" }) {
				allInstrs(f, func(in ssa.Instruction) {
					switch x := in.(type) {
					case *ssa.Call:
						if lv := lenOf(x); lv != nil {
							switch t := lv.Type().Underlying().(type) {
							case *types.Basic:
								if t.Info()&types.IsString != 0 {
									byteLen = true
								}
							case *types.Slice:
								if bt, ok := t.Elem().Underlying().(*types.Basic); ok {
									if bt.Kind() == types.Byte || bt.Kind() == types.Uint8 {
										byteLen = true
									}
									if bt.Kind() == types.Rune || bt.Kind() == types.Int32 {
										runes = p.InstrPos(x)
									}
								}
							}
						}
						if g := x.Call.StaticCallee(); g != nil && strings.HasPrefix(p.qualName(g), "unicode/utf8.RuneCount") {
							runes = p.InstrPos(x)
						}
					case *ssa.Convert:
						if sl, ok := x.Type().Underlying().(*types.Slice); ok {
							if bt, ok := sl.Elem().Underlying().(*types.Basic); ok && bt.Kind() == types.Int32 {
								runes = p.InstrPos(x)
							}
						}
					}
				})
			}
			r.add(byteLen && runes == "", "strlen|"+which+"|bytes", firstNonEmpty(runes, p.Pos(body.Pos())), "strlen takes len of a string / []byte and counts no runes")
		}
	}
	r.floor("registered strlen bodies", n, 2)
}

// ---------------- CACHEKEY ----------------

func accessPath(p *Prog, v ssa.Value, depth int) string {
	if depth == 0 {
		return v.Name()
	}
	switch x := v.(type) {
	case *ssa.Parameter:
		return x.Name()
	case *ssa.Const:
		return x.String()
	case *ssa.UnOp:
		if x.Op == token.MUL {
			return accessPath(p, x.X, depth)
		}
	case *ssa.FieldAddr:
		_, f, _, _ := fieldOfAddr(x)
		return accessPath(p, x.X, depth-1) + "." + f
	case *ssa.Field:
		return accessPath(p, x.X, depth-1) + fmt.Sprintf(".#%d", x.Field)
	case *ssa.IndexAddr:
		return accessPath(p, x.X, depth-1) + "[" + accessPath(p, x.Index, depth-1) + "]"
	case *ssa.Call:
		s := "call " + p.calleeName(&x.Call) + "("
		if x.Call.IsInvoke() {
			s += accessPath(p, x.Call.Value, depth-1) + ";"
		}
		for _, a := range x.Call.Args {
			s += accessPath(p, a, depth-1) + ","
		}
		return s + ")"
	}
	return v.Name()
}

func ruleCacheKey(p *Prog, r *Result) {
	n := 0
	for _, fn := range p.Funcs {
		var gets, sets []string
		pos := ""
		allInstrs(fn, func(in ssa.Instruction) {
			c, ok := in.(*ssa.Call)
			if !ok {
				return
			}
			g := c.Call.StaticCallee()
			if g == nil || len(c.Call.Args) < 2 {
				return
			}
			switch g.Name() {
			case "GetFieldResult":
				gets = append(gets, accessPath(p, c.Call.Args[1], 6))
			case "SetFieldResult":
				sets = append(sets, accessPath(p, c.Call.Args[1], 6))
				pos = p.InstrPos(c)
			}
		})
		if len(gets) == 0 || len(sets) == 0 {
			continue
		}
		n++
		same := true
		for _, s := range append(append([]string{}, gets...), sets...) {
			if s != gets[0] {
				same = false
			}
		}
		r.add(same, p.FName(fn)+"|one-key", pos, fmt.Sprintf("read under %v, written under %v", gets, sets))
	}
	r.note("functions_reading_and_writing_the_field_memo", n)
	r.floor("functions that read and write the field memo", n, 1)
}

// ---------------- LOOKAHEAD ----------------

func init() {
	register("LOOKAHEAD", "the lexer's look-ahead is the next byte whenever there is one: a read of Query[i+k] (k > 0) is guarded by exactly i < Length-k (any equivalent linear form) - a stronger guard reads 0 instead of the last byte(s), so a two-byte operator at the very end of the text is split", ruleLookAhead)
	register("NAMEEXACT", "a name is printed bare only if the lexer reads it back as the very same text: (*NameExpr).String compares the re-read token's Data with its own Data by ==, and folds no case", ruleNameExact)
}

func ruleLookAhead(p *Prog, r *Result) {
	lin := func(v ssa.Value) (ssa.Value, int64) {
		for {
			b, ok := v.(*ssa.BinOp)
			if !ok {
				return v, 0
			}
			switch b.Op {
			case token.ADD:
				if k, isK := constInt(b.Y); isK {
					bv, bk := b.X, k
					if bb, ok := bv.(*ssa.BinOp); ok && (bb.Op == token.ADD || bb.Op == token.SUB) {
						_ = bb
					}
					return bv, bk
				}
				if k, isK := constInt(b.X); isK {
					return b.Y, k
				}
			case token.SUB:
				if k, isK := constInt(b.Y); isK {
					return b.X, -k
				}
			}
			return v, 0
		}
	}
	isLength := func(v ssa.Value) bool {
		if _, f, _, ok := loadedField(v); ok && f == "Length" {
			return true
		}
		if lv := lenOf(v); lv != nil {
			if _, f, _, ok := loadedField(lv); ok && f == "Query" {
				return true
			}
		}
		return false
	}
	n := 0
	for _, fn := range p.Funcs {
		idx := 0
		allInstrs(fn, func(in ssa.Instruction) {
			var lkX, lkIndex ssa.Value
			switch x := in.(type) {
			case *ssa.Lookup:
				lkX, lkIndex = x.X, x.Index
			case *ssa.Index:
				lkX, lkIndex = x.X, x.Index
			default:
				return
			}
			lk := in
			if _, f, _, ok := loadedField(lkX); !ok || f != "Query" {
				return
			}
			iv, k := lin(lkIndex)
			if k <= 0 {
				return
			}
			n++
			idx++
			have := false
			tight := true
			detail := ""
			for _, a := range dominatingAtoms(lk.Block()) {
				if a.Neg {
					continue
				}
				x, y, op := a.X, a.Y, a.Op
				lx, kx := lin(x)
				ly, ky := lin(y)
				if isLength(lx) && ly == iv {
					lx, kx, ly, ky, op = ly, ky, lx, kx, swapOp(op)
				}
				if lx != iv || !isLength(ly) {
					continue
				}
				d := ky - kx // iv op Length + d
				switch op {
				case token.LEQ:
					d, op = d+1, token.LSS
				}
				switch op {
				case token.LSS:
					if d == -k {
						have = true
					} else if d < -k {
						tight = false
						detail = fmt.Sprintf("guarded by i < Length%+d: the byte at i+%d exists already when i < Length%+d", d, k, -k)
					}
				case token.NEQ:
					if d == -k {
						have = true
					}
				}
			}
			r.add(have && tight, fmt.Sprintf("%s|ahead#%d", p.FName(fn), idx), p.InstrPos(lk), firstNonEmpty(detail, fmt.Sprintf("Query[i+%d] read exactly when i < Length-%d", k, k)))
		})
	}
	r.note("look_ahead_reads", n)
	r.floor("look-ahead reads of the query text", n, 1)
}

func ruleNameExact(p *Prog, r *Result) {
	fn := p.MethodByName("NameExpr", "String")
	if fn == nil {
		r.undecided("anchor: (*NameExpr).String not found")
		return
	}
	exact, folds := "", ""
	for _, f := range p.staticClosure(fn, 2, func(g *ssa.Function) bool {
		return g.Signature.Recv() != nil && typeName(g.Signature.Recv().Type()) == "Lexer" || g.Name() == "NewLexer"
	}) {
		allInstrs(f, func(in ssa.Instruction) {
			switch x := in.(type) {
			case *ssa.BinOp:
				if x.Op != token.EQL && x.Op != token.NEQ {
					return
				}
				isData := func(v ssa.Value, owner string) bool {
					o, fl, _, ok := loadedField(v)
					return ok && fl == "Data" && o != nil && o.Obj().Name() == owner
				}
				// the name's own text: the field, or a helper's parameter that receives it (readsBackAsName(e.Data))
				isOwn := func(v ssa.Value) bool {
					if isData(v, "NameExpr") {
						return true
					}
					pa, ok := v.(*ssa.Parameter)
					if !ok {
						return false
					}
					for pi, q := range f.Params {
						if q != pa {
							continue
						}
						found := false
						allInstrs(fn, func(y ssa.Instruction) {
							if cc, ok := y.(*ssa.Call); ok && cc.Call.StaticCallee() == f && pi < len(cc.Call.Args) && isData(cc.Call.Args[pi], "NameExpr") {
								found = true
							}
						})
						return found
					}
					return false
				}
				if (isData(x.X, "Token") && isOwn(x.Y)) || (isData(x.Y, "Token") && isOwn(x.X)) {
					exact = p.InstrPos(x)
				}
			case *ssa.Call:
				if g := x.Call.StaticCallee(); g != nil {
					switch p.qualName(g) {
					case "strings.EqualFold", "strings.ToLower", "strings.ToUpper", "bytes.EqualFold":
						folds = p.InstrPos(x)
					}
				}
			}
		})
	}
	r.add(exact != "", "NameExpr|exact-compare", firstNonEmpty(exact, p.Pos(fn.Pos())), "the re-read token's Data is compared with the name's Data by ==")
	r.add(folds == "", "NameExpr|no-case-folding", firstNonEmpty(folds, p.Pos(fn.Pos())), "no case folding on the way to the decision to print a name bare")
}

// ---------------- TRIMINDEX / L2DIFF ----------------

func init() {
	register("TRIMINDEX", "the number of bytes trimmed off in front is the place of the trimmed text inside the full text: in strings.Index(h, n) with one argument a trimmed form (strings.Trim*) of the other, the trimmed form is the needle n - with the roles exchanged the call yields -1 whenever anything was trimmed", ruleTrimIndex)
	register("L2DIFF", "l2_distance is a function of the component differences: in the two-vector helper reached from the registered l2_distance bodies, every component read of either vector is an operand of left[i] - right[i] (same index), nothing else reads a component", ruleL2Diff)
}

func ruleTrimIndex(p *Prog, r *Result) {
	trimOf := func(v ssa.Value) ssa.Value {
		c, ok := v.(*ssa.Call)
		if !ok {
			return nil
		}
		g := c.Call.StaticCallee()
		if g == nil || !strings.HasPrefix(p.qualName(g), "strings.Trim") || len(c.Call.Args) == 0 {
			return nil
		}
		return c.Call.Args[0]
	}
	n := 0
	for _, fn := range p.Funcs {
		idx := 0
		allInstrs(fn, func(in ssa.Instruction) {
			c, ok := in.(*ssa.Call)
			if !ok {
				return
			}
			g := c.Call.StaticCallee()
			if g == nil || len(c.Call.Args) != 2 {
				return
			}
			switch p.qualName(g) {
			case "strings.Index", "strings.LastIndex":
			default:
				return
			}
			h, nd := c.Call.Args[0], c.Call.Args[1]
			good := trimOf(nd) == h
			bad := trimOf(h) == nd
			if !good && !bad {
				return
			}
			n++
			idx++
			r.add(good, fmt.Sprintf("%s|index#%d", p.FName(fn), idx), p.InstrPos(c), map[bool]string{true: "the trimmed text is looked for inside the full text", false: "the full text is looked for inside its own trimmed form: -1 whenever something was trimmed"}[good])
		})
	}
	r.note("index_calls_between_a_text_and_its_trimmed_form", n)
}

func ruleL2Diff(p *Prog, r *Result) {
	rows, err := p.registry("funcMap")
	if err != nil {
		r.undecided("%v", err)
		return
	}
	isVec := func(t types.Type) bool {
		sl, ok := t.Underlying().(*types.Slice)
		if !ok {
			return false
		}
		bt, ok := sl.Elem().Underlying().(*types.Basic)
		return ok && bt.Kind() == types.Float64
	}
	seen := map[*ssa.Function]bool{}
	n := 0
	for _, row := range rows {
		if row.Key != "l2_distance" {
			continue
		}
		for _, body := range []*ssa.Function{row.Body, row.BodyVec} {
			if body == nil {
				continue
			}
			for _, f := range p.staticClosure(body, 2, nil) {
				if seen[f] || !p.InPkg(f) || len(f.Params) != 2 || !isVec(f.Params[0].Type()) || !isVec(f.Params[1].Type()) {
					continue
				}
				seen[f] = true
				n++
				bad := ""
				reads := 0
				allInstrs(f, func(in ssa.Instruction) {
					ld, ok := in.(*ssa.UnOp)
					if !ok || ld.Op != token.MUL {
						return
					}
					ia, ok := ld.X.(*ssa.IndexAddr)
					if !ok || (ia.X != ssa.Value(f.Params[0]) && ia.X != ssa.Value(f.Params[1])) {
						return
					}
					reads++
					for _, ref := range *ld.Referrers() {
						if _, isDbg := ref.(*ssa.DebugRef); isDbg {
							continue
						}
						b, ok := ref.(*ssa.BinOp)
						okUse := false
						if ok && b.Op == token.SUB {
							other := b.X
							if other == ssa.Value(ld) {
								other = b.Y
							}
							if old, ok := other.(*ssa.UnOp); ok && old.Op == token.MUL {
								if oia, ok := old.X.(*ssa.IndexAddr); ok && oia.X != ia.X && (oia.X == ssa.Value(f.Params[0]) || oia.X == ssa.Value(f.Params[1])) && oia.Index == ia.Index {
									okUse = true
								}
							}
						}
						if !okUse {
							bad = p.InstrPos(ref.(ssa.Instruction))
						}
					}
				})
				r.add(bad == "" && reads >= 2, p.FName(f)+"|differences-only", firstNonEmpty(bad, p.Pos(f.Pos())), "every component read is an operand of left[i] - right[i]")
			}
		}
	}
	r.note("two_vector_helpers_of_l2_distance", n)
}

// ---------------- VECNILARGS ----------------

func init() {
	register("VECNILARGS", "a registered vector body that answers a call without arguments with a nil column (return nil, nil on the edge len(args) == 0) is registered with NumArgs >= 1: the callers index the returned column per row, and only the arity check keeps that return dead", ruleVecNilArgs)
}

func ruleVecNilArgs(p *Prog, r *Result) {
	rows, err := p.registry("funcMap")
	if err != nil {
		r.undecided("%v", err)
		return
	}
	n := 0
	for _, row := range rows {
		f := row.BodyVec
		if f == nil {
			continue
		}
		pos := ""
		for _, b := range f.Blocks {
			ret := retOf(b)
			if ret == nil || len(ret.Results) != 2 || !isNilConst(ret.Results[0]) || !isNilConst(ret.Results[1]) {
				continue
			}
			for _, pred := range b.Preds {
				for si, s := range pred.Succs {
					if s != b {
						continue
					}
					a, ok := edgeAtom(pred, si)
					if !ok || a.Neg {
						continue
					}
					lv := lenOf(a.X)
					if lv == nil {
						continue
					}
					sl, isSl := lv.Type().Underlying().(*types.Slice)
					if !isSl || typeName(sl.Elem()) != "Expression" {
						continue
					}
					k, isK := constInt(a.Y)
					if isK && ((a.Op == token.EQL && k == 0) || (a.Op == token.LSS && k == 1) || (a.Op == token.LEQ && k == 0)) {
						pos = p.InstrPos(ret)
					}
				}
			}
		}
		if pos == "" {
			continue
		}
		n++
		r.add(row.NumArgs >= 1, row.Key+"|nil-column-needs-arity", pos, fmt.Sprintf("the vector body of %s returns a nil column for no arguments; registered NumArgs = %d", row.Key, row.NumArgs))
	}
	r.note("vector_bodies_with_a_nil_column_for_no_arguments", n)
}

// ---------------- TWINBOUND ----------------

func init() {
	register("TWINBOUND", "the row body and the vector body of a registered function cut a text at the same places: the comparisons of an integer with the length of a text (len of a string or []byte, shifted by constants), brought to the form n >= len+d / n < len+d, are the same set in both bodies", ruleTwinBound)
}

func ruleTwinBound(p *Prog, r *Result) {
	rows, err := p.registry("funcMap")
	if err != nil {
		r.undecided("%v", err)
		return
	}
	lin := func(v ssa.Value) (ssa.Value, int64) {
		if b, ok := v.(*ssa.BinOp); ok {
			switch b.Op {
			case token.ADD:
				if k, isK := constInt(b.Y); isK {
					return b.X, k
				}
				if k, isK := constInt(b.X); isK {
					return b.Y, k
				}
			case token.SUB:
				if k, isK := constInt(b.Y); isK {
					return b.X, -k
				}
			}
		}
		return v, 0
	}
	isTextLen := func(v ssa.Value) bool {
		lv := lenOf(v)
		if lv == nil {
			return false
		}
		switch t := lv.Type().Underlying().(type) {
		case *types.Basic:
			return t.Info()&types.IsString != 0
		case *types.Slice:
			bt, ok := t.Elem().Underlying().(*types.Basic)
			return ok && bt.Kind() == types.Uint8
		}
		return false
	}
	bounds := func(f0 *ssa.Function) map[string]string {
		out := map[string]string{}
		// with what the body calls inside the package (a vector body may evaluate the row body per row)
		for _, f := range p.staticClosure(f0, 2, nil) {
			if !p.InPkg(f) {
				continue
			}
			allInstrs(f, func(in ssa.Instruction) {
				b, ok := in.(*ssa.BinOp)
				if !ok {
					return
				}
				op := b.Op
				switch op {
				case token.LSS, token.LEQ, token.GTR, token.GEQ, token.EQL, token.NEQ:
				default:
					return
				}
				x, kx := lin(b.X)
				y, ky := lin(b.Y)
				if isTextLen(x) && !isTextLen(y) {
					x, kx, y, ky, op = y, ky, x, kx, swapOp(op)
				}
				if !isTextLen(y) || isTextLen(x) {
					return
				}
				if _, isK := constInt(x); isK {
					return
				}
				d := ky - kx // x op len + d
				// normal forms: GEQ d (x >= len+d) and its negation LSS d; EQL/NEQ kept
				switch op {
				case token.GTR: // x > len+d  ==  x >= len+d+1
					op, d = token.GEQ, d+1
				case token.LEQ: // x <= len+d  ==  x < len+d+1
					op, d = token.LSS, d+1
				}
				if op == token.LSS { // the same cut, other branch
					op = token.GEQ
				}
				if op == token.NEQ {
					op = token.EQL
				}
				out[fmt.Sprintf("n %s len%+d", op, d)] = p.InstrPos(b)
			})
		}
		return out
	}
	n := 0
	for _, row := range rows {
		if row.Body == nil || row.BodyVec == nil {
			continue
		}
		a, b := bounds(row.Body), bounds(row.BodyVec)
		if len(a) == 0 && len(b) == 0 {
			continue
		}
		n++
		diff, pos := "", row.Pos
		for k, ps := range a {
			if _, ok := b[k]; !ok {
				diff, pos = "only the row body cuts at `"+k+"`", ps
			}
		}
		for k, ps := range b {
			if _, ok := a[k]; !ok {
				diff, pos = "only the vector body cuts at `"+k+"`", ps
			}
		}
		r.add(diff == "", row.Key+"|same-cuts", pos, firstNonEmpty(diff, fmt.Sprintf("both bodies compare against the text length at the same %d place(s)", len(a))))
	}
	r.note("functions_cutting_texts_in_both_bodies", n)
	r.floor("registered functions comparing against a text length", n, 1)
}

// ---------------- GROUPCONV ----------------

func init() {
	register("GROUPCONV", "row mode and batch mode render a group value with the same function: the methods of AggregatePlan that call a package renderer (a function taking the value as `any` and returning ([]byte, error)) all call the same one(s) - a second renderer on one side lets the same value fall into differently named groups in the two modes", ruleGroupConv)
}

func ruleGroupConv(p *Prog, r *Result) {
	at := p.Named("AggregatePlan")
	if at == nil {
		r.undecided("anchor: AggregatePlan not found")
		return
	}
	isRenderer := func(g *ssa.Function) bool {
		if g == nil || !p.InPkg(g) {
			return false
		}
		res := g.Signature.Results()
		if res.Len() != 2 || !isErrorType(res.At(1).Type()) {
			return false
		}
		sl, ok := res.At(0).Type().Underlying().(*types.Slice)
		if !ok {
			return false
		}
		if bt, ok := sl.Elem().Underlying().(*types.Basic); !ok || bt.Kind() != types.Uint8 {
			return false
		}
		ps := g.Signature.Params()
		for i := 0; i < ps.Len(); i++ {
			if it, ok := ps.At(i).Type().Underlying().(*types.Interface); ok && it.Empty() {
				return true
			}
		}
		return false
	}
	sets := map[string]map[string]bool{}
	renderers := map[*ssa.Function]bool{}
	for _, fn := range p.methodsOf(at) {
		if isRenderer(fn) {
			renderers[fn] = true
		}
	}
	for _, fn := range p.methodsOf(at) {
		if renderers[fn] {
			continue // a renderer delegating to another one is its own business
		}
		allInstrs(fn, func(in ssa.Instruction) {
			c, ok := in.(*ssa.Call)
			if !ok {
				return
			}
			if g := c.Call.StaticCallee(); isRenderer(g) {
				if sets[p.FName(fn)] == nil {
					sets[p.FName(fn)] = map[string]bool{}
				}
				sets[p.FName(fn)][p.FName(g)] = true
			}
		})
	}
	var names []string
	for k := range sets {
		names = append(names, k)
	}
	sort.Strings(names)
	for _, k := range names {
		same := len(sets[k]) == len(sets[names[0]])
		for g := range sets[k] {
			if !sets[names[0]][g] {
				same = false
			}
		}
		r.add(same, k+"|same-renderer", p.Pos(p.MethodByName("AggregatePlan", strings.TrimPrefix(strings.TrimPrefix(k, "(*AggregatePlan)."), "(AggregatePlan).")).Pos()), fmt.Sprintf("renders group values with %v; %s with %v", keysOf(sets[k]), names[0], keysOf(sets[names[0]])))
	}
	r.note("group_key_builders", names)
	r.floor("AggregatePlan methods rendering group values", len(names), 1)
}
