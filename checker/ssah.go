package main

import (
	"go/constant"
	"go/token"
	"go/types"

	"golang.org/x/tools/go/ssa"
)

// ---------- control flow helpers ----------

// edgeDominates reports whether taking edge b -> b.Succs[i] is a precondition of
// reaching x: the successor dominates x and can only be entered through that edge
// (or through blocks it dominates, i.e. loop back edges).
func edgeDominates(b *ssa.BasicBlock, i int, x *ssa.BasicBlock) bool {
	s := b.Succs[i]
	if len(b.Succs) == 2 && b.Succs[0] == b.Succs[1] {
		return false
	}
	if !s.Dominates(x) {
		return false
	}
	for _, pr := range s.Preds {
		if pr == b {
			continue
		}
		if !s.Dominates(pr) {
			return false
		}
	}
	return true
}

// ifOf returns the If terminating b, or nil.
func ifOf(b *ssa.BasicBlock) *ssa.If {
	if len(b.Instrs) == 0 {
		return nil
	}
	i, _ := b.Instrs[len(b.Instrs)-1].(*ssa.If)
	return i
}

func retOf(b *ssa.BasicBlock) *ssa.Return {
	if len(b.Instrs) == 0 {
		return nil
	}
	r, _ := b.Instrs[len(b.Instrs)-1].(*ssa.Return)
	return r
}

// Atom is a normalised atomic comparison X op Y that holds on an edge.
type Atom struct {
	Op   token.Token // EQL NEQ LSS LEQ GTR GEQ
	X, Y ssa.Value
	// Neg: the operator was obtained by negating the comparison the code makes (the false edge of `x < y` is
	// recorded as x >= y). For floats that is not an equivalence: every ordering comparison with NaN is false
	Neg bool
}

func negOp(op token.Token) token.Token {
	switch op {
	case token.EQL:
		return token.NEQ
	case token.NEQ:
		return token.EQL
	case token.LSS:
		return token.GEQ
	case token.GEQ:
		return token.LSS
	case token.GTR:
		return token.LEQ
	case token.LEQ:
		return token.GTR
	}
	return token.ILLEGAL
}

func swapOp(op token.Token) token.Token {
	switch op {
	case token.LSS:
		return token.GTR
	case token.GTR:
		return token.LSS
	case token.LEQ:
		return token.GEQ
	case token.GEQ:
		return token.LEQ
	}
	return op
}

// condAtom decodes the condition value of an If into the atom that holds when the
// condition evaluates to `truth`. Boolean values b are rendered as (b == true/false).
func condAtom(c ssa.Value, truth bool) (Atom, bool) {
	for {
		if u, ok := c.(*ssa.UnOp); ok && u.Op == token.NOT {
			c = u.X
			truth = !truth
			continue
		}
		break
	}
	if b, ok := c.(*ssa.BinOp); ok {
		switch b.Op {
		case token.EQL, token.NEQ, token.LSS, token.LEQ, token.GTR, token.GEQ:
			op := b.Op
			if !truth {
				op = negOp(op)
			}
			return Atom{Op: op, X: b.X, Y: b.Y, Neg: !truth}, true
		}
	}
	// plain boolean value
	tv := ssa.NewConst(constant.MakeBool(true), types.Typ[types.Bool])
	if truth {
		return Atom{Op: token.EQL, X: c, Y: tv}, true
	}
	return Atom{Op: token.NEQ, X: c, Y: tv}, true
}

// edgeAtom returns the atom that holds on edge b -> b.Succs[i] when b ends in an If.
func edgeAtom(b *ssa.BasicBlock, i int) (Atom, bool) {
	f := ifOf(b)
	if f == nil {
		return Atom{}, false
	}
	return condAtom(f.Cond, i == 0)
}

func isNilConst(v ssa.Value) bool {
	c, ok := v.(*ssa.Const)
	return ok && c.Value == nil && !isBasic(c.Type())
}

func isBasic(t types.Type) bool {
	_, ok := t.Underlying().(*types.Basic)
	return ok
}

func constInt(v ssa.Value) (int64, bool) {
	c, ok := v.(*ssa.Const)
	if !ok || c.Value == nil {
		return 0, false
	}
	if c.Value.Kind() != constant.Int {
		return 0, false
	}
	return c.Int64(), true
}

func constBool(v ssa.Value) (bool, bool) {
	c, ok := v.(*ssa.Const)
	if !ok || c.Value == nil || c.Value.Kind() != constant.Bool {
		return false, false
	}
	return constant.BoolVal(c.Value), true
}

func constString(v ssa.Value) (string, bool) {
	c, ok := v.(*ssa.Const)
	if !ok || c.Value == nil || c.Value.Kind() != constant.String {
		return "", false
	}
	return constant.StringVal(c.Value), true
}

// dominatingAtoms lists the atoms that must hold whenever block x executes,
// collected from all If edges that dominate x.
func dominatingAtoms(x *ssa.BasicBlock) []Atom {
	var out []Atom
	fn := x.Parent()
	for _, b := range fn.Blocks {
		if ifOf(b) == nil {
			continue
		}
		for i := range b.Succs {
			if edgeDominates(b, i, x) {
				if a, ok := edgeAtom(b, i); ok {
					out = append(out, a)
				}
			}
		}
	}
	return out
}

// reachableFrom returns all blocks reachable from start (inclusive), not entering
// blocks in the stop set.
func reachableFrom(start *ssa.BasicBlock, stop map[*ssa.BasicBlock]bool) map[*ssa.BasicBlock]bool {
	seen := map[*ssa.BasicBlock]bool{}
	var walk func(b *ssa.BasicBlock)
	walk = func(b *ssa.BasicBlock) {
		if seen[b] || (stop != nil && stop[b]) {
			return
		}
		seen[b] = true
		for _, s := range b.Succs {
			walk(s)
		}
	}
	walk(start)
	return seen
}

// Loop is a natural loop.
type Loop struct {
	Header *ssa.BasicBlock
	Body   map[*ssa.BasicBlock]bool
}

// naturalLoops computes natural loops (merged per header).
func naturalLoops(fn *ssa.Function) []*Loop {
	byHeader := map[*ssa.BasicBlock]*Loop{}
	var order []*ssa.BasicBlock
	for _, b := range fn.Blocks {
		for _, h := range b.Succs {
			if h.Dominates(b) { // back edge b -> h
				l := byHeader[h]
				if l == nil {
					l = &Loop{Header: h, Body: map[*ssa.BasicBlock]bool{h: true}}
					byHeader[h] = l
					order = append(order, h)
				}
				// add all blocks that reach b without passing h
				var stack []*ssa.BasicBlock
				if !l.Body[b] {
					l.Body[b] = true
					stack = append(stack, b)
				}
				for len(stack) > 0 {
					x := stack[len(stack)-1]
					stack = stack[:len(stack)-1]
					for _, pr := range x.Preds {
						if !l.Body[pr] {
							l.Body[pr] = true
							stack = append(stack, pr)
						}
					}
				}
			}
		}
	}
	var out []*Loop
	for _, h := range order {
		out = append(out, byHeader[h])
	}
	return out
}

// ---------- value helpers ----------

// stripConv removes representation-preserving wrappers.
func stripConv(v ssa.Value) ssa.Value {
	for {
		switch x := v.(type) {
		case *ssa.ChangeType:
			v = x.X
		case *ssa.ChangeInterface:
			v = x.X
		case *ssa.MakeInterface:
			v = x.X
		case *ssa.Convert:
			v = x.X
		default:
			return v
		}
	}
}

// backward walks the def-use chain backwards from v through value-preserving or
// container-to-element instructions, calling visit on every value met (including v).
// visit returns false to stop descending below that value.
func backward(v ssa.Value, visit func(ssa.Value) bool) {
	seen := map[ssa.Value]bool{}
	var rec func(ssa.Value)
	rec = func(x ssa.Value) {
		if x == nil || seen[x] {
			return
		}
		seen[x] = true
		if !visit(x) {
			return
		}
		switch y := x.(type) {
		case *ssa.Phi:
			for _, e := range y.Edges {
				rec(e)
			}
		case *ssa.ChangeType:
			rec(y.X)
		case *ssa.ChangeInterface:
			rec(y.X)
		case *ssa.MakeInterface:
			rec(y.X)
		case *ssa.Convert:
			rec(y.X)
		case *ssa.TypeAssert:
			rec(y.X)
		case *ssa.Extract:
			rec(y.Tuple)
		case *ssa.UnOp:
			rec(y.X)
		case *ssa.FieldAddr:
			rec(y.X)
		case *ssa.Field:
			rec(y.X)
		case *ssa.IndexAddr:
			rec(y.X)
		case *ssa.Index:
			rec(y.X)
		case *ssa.Slice:
			rec(y.X)
		case *ssa.Lookup:
			rec(y.X)
		case *ssa.Next:
			rec(y.Iter)
		case *ssa.Range:
			rec(y.X)
		case *ssa.Alloc:
			for _, sv := range storedInto(y) {
				rec(sv)
			}
		}
	}
	rec(v)
}

// derivesFrom reports whether v is computed (backward walk) from a value satisfying pred.
func derivesFrom(v ssa.Value, pred func(ssa.Value) bool) bool {
	found := false
	backward(v, func(x ssa.Value) bool {
		if found {
			return false
		}
		if pred(x) {
			found = true
			return false
		}
		return true
	})
	return found
}

// forwardTaint computes the set of values that carry v forward: phis, conversions,
// extracts, and results of calls that take a tainted value as argument or receiver.
func forwardTaint(seeds ...ssa.Value) map[ssa.Value]bool {
	t := map[ssa.Value]bool{}
	var work []ssa.Value
	add := func(v ssa.Value) {
		if v != nil && !t[v] {
			t[v] = true
			work = append(work, v)
		}
	}
	for _, s := range seeds {
		add(s)
	}
	for len(work) > 0 {
		v := work[len(work)-1]
		work = work[:len(work)-1]
		refs := v.Referrers()
		if refs == nil {
			continue
		}
		for _, r := range *refs {
			switch x := r.(type) {
			case *ssa.Phi:
				add(x)
			case *ssa.ChangeInterface:
				add(x)
			case *ssa.ChangeType:
				add(x)
			case *ssa.MakeInterface:
				add(x)
			case *ssa.Convert:
				add(x)
			case *ssa.TypeAssert:
				add(x)
			case *ssa.Extract:
				add(x)
			case *ssa.Call:
				add(x)
			case *ssa.BinOp:
				if x.Op == token.ADD {
					add(x)
				}
			case *ssa.Slice:
				add(x)
			case *ssa.Store:
				// stored into a local aggregate (e.g. the []any of a variadic call): taint the allocation
				if x.Val == v {
					base := x.Addr
					for {
						switch y := base.(type) {
						case *ssa.IndexAddr:
							base = y.X
							continue
						case *ssa.FieldAddr:
							base = y.X
							continue
						}
						break
					}
					if al, ok := base.(*ssa.Alloc); ok {
						add(al)
					}
				}
			}
		}
	}
	return t
}

// fieldOfAddr: if v is a FieldAddr (or load of one) returns struct named type + field name.
func fieldOfAddr(v ssa.Value) (owner *types.Named, field string, base ssa.Value, ok bool) {
	fa, isFA := v.(*ssa.FieldAddr)
	if !isFA {
		return nil, "", nil, false
	}
	st, isSt := deref(fa.X.Type()).Underlying().(*types.Struct)
	if !isSt {
		return nil, "", nil, false
	}
	return namedOf(fa.X.Type()), st.Field(fa.Field).Name(), fa.X, true
}

// loadedField: if v is a load `*(&x.F)` or a Field extraction x.F returns owner/field/base.
func loadedField(v ssa.Value) (owner *types.Named, field string, base ssa.Value, ok bool) {
	switch x := v.(type) {
	case *ssa.UnOp:
		if x.Op == token.MUL {
			return fieldOfAddr(x.X)
		}
	case *ssa.Field:
		st, isSt := x.X.Type().Underlying().(*types.Struct)
		if !isSt {
			return nil, "", nil, false
		}
		return namedOf(x.X.Type()), st.Field(x.Field).Name(), x.X, true
	}
	return nil, "", nil, false
}

// isFieldLoad reports whether v loads field `field` of a struct whose named type is `owner`.
func isFieldLoad(v ssa.Value, owner, field string) bool {
	n, f, _, ok := loadedField(v)
	return ok && n != nil && n.Obj().Name() == owner && f == field
}

// calleeName returns the package-relative name of a static callee ("" if dynamic),
// or "pkg.Func" for functions of other packages.
func (p *Prog) calleeName(c *ssa.CallCommon) string {
	f := c.StaticCallee()
	if f == nil {
		return ""
	}
	return p.qualName(f)
}

func (p *Prog) qualName(f *ssa.Function) string {
	if f.Pkg == p.SPkg {
		return p.FName(f)
	}
	if f.Pkg != nil {
		if f.Signature.Recv() != nil {
			return "(" + f.Signature.Recv().Type().String() + ")." + f.Name()
		}
		return f.Pkg.Pkg.Path() + "." + f.Name()
	}
	// synthetic wrappers, instantiated generics
	if f.Object() != nil && f.Object().Pkg() != nil {
		return f.Object().Pkg().Path() + "." + f.Name()
	}
	return f.String()
}

// instrIndex returns the index of in inside its block.
func instrIndex(in ssa.Instruction) int {
	for i, x := range in.Block().Instrs {
		if x == in {
			return i
		}
	}
	return -1
}

// instrDominates: a executes before b on every path to b.
func instrDominates(a, b ssa.Instruction) bool {
	if a.Block() == b.Block() {
		return instrIndex(a) < instrIndex(b)
	}
	return a.Block().Dominates(b.Block())
}

// allInstrs iterates all instructions of fn.
func allInstrs(fn *ssa.Function, f func(ssa.Instruction)) {
	for _, b := range fn.Blocks {
		for _, in := range b.Instrs {
			f(in)
		}
	}
}

// invokeMethod: if in is an interface method invocation returns receiver type name and method.
func invokeOf(in ssa.Instruction) (recvIface *types.Named, method string, call ssa.CallInstruction, ok bool) {
	c, isCall := in.(ssa.CallInstruction)
	if !isCall {
		return nil, "", nil, false
	}
	cc := c.Common()
	if !cc.IsInvoke() {
		return nil, "", nil, false
	}
	n, _ := cc.Value.Type().(*types.Named)
	return n, cc.Method.Name(), c, true
}

// storedInto lists the values stored into a local allocation (directly or through
// IndexAddr/FieldAddr of it): the contents a later load may observe.
func storedInto(al *ssa.Alloc) []ssa.Value {
	var out []ssa.Value
	var visit func(addr ssa.Value, depth int)
	visit = func(addr ssa.Value, depth int) {
		refs := addr.Referrers()
		if refs == nil || depth > 3 {
			return
		}
		for _, r := range *refs {
			switch x := r.(type) {
			case *ssa.Store:
				if x.Addr == addr {
					out = append(out, x.Val)
				}
			case *ssa.IndexAddr:
				if x.X == addr {
					visit(x, depth+1)
				}
			case *ssa.FieldAddr:
				if x.X == addr {
					visit(x, depth+1)
				}
			}
		}
	}
	visit(al, 0)
	return out
}

// ---------- interprocedural backward trace ----------

// traceOpts controls traceBack.
type traceOpts struct {
	IntoReturns bool // descend into the return operands of static same-package callees
	ThroughArgs bool // from a parameter, continue at the matching argument of every static call site in the package
	MaxDepth    int
}

// traceBack walks backwards from v like backward(), additionally crossing function
// boundaries as configured. visit returns false to stop descending below a value.
func (p *Prog) traceBack(v ssa.Value, o traceOpts, visit func(ssa.Value) bool) {
	if o.MaxDepth == 0 {
		o.MaxDepth = 4
	}
	seen := map[ssa.Value]bool{}
	var rec func(x ssa.Value, depth int)
	rec = func(x ssa.Value, depth int) {
		if x == nil || seen[x] {
			return
		}
		seen[x] = true
		if !visit(x) {
			return
		}
		switch y := x.(type) {
		case *ssa.Phi:
			for _, e := range y.Edges {
				rec(e, depth)
			}
		case *ssa.ChangeType:
			rec(y.X, depth)
		case *ssa.ChangeInterface:
			rec(y.X, depth)
		case *ssa.MakeInterface:
			rec(y.X, depth)
		case *ssa.Convert:
			rec(y.X, depth)
		case *ssa.TypeAssert:
			rec(y.X, depth)
		case *ssa.Extract:
			if c, ok := y.Tuple.(*ssa.Call); ok && o.IntoReturns && depth < o.MaxDepth {
				if f := c.Call.StaticCallee(); f != nil && p.InPkg(f) && f.Blocks != nil {
					for _, b := range f.Blocks {
						if r := retOf(b); r != nil && y.Index < len(r.Results) {
							rec(retVal(r, y.Index), depth+1)
						}
					}
					return
				}
			}
			rec(y.Tuple, depth)
		case *ssa.Call:
			if o.IntoReturns && depth < o.MaxDepth {
				if f := y.Call.StaticCallee(); f != nil && p.InPkg(f) && f.Blocks != nil && f.Signature.Results().Len() == 1 {
					for _, b := range f.Blocks {
						if r := retOf(b); r != nil && len(r.Results) == 1 {
							rec(retVal(r, 0), depth+1)
						}
					}
				}
			}
		case *ssa.UnOp:
			rec(y.X, depth)
		case *ssa.FieldAddr:
			rec(y.X, depth)
		case *ssa.Field:
			rec(y.X, depth)
		case *ssa.IndexAddr:
			rec(y.X, depth)
		case *ssa.Index:
			rec(y.X, depth)
		case *ssa.Slice:
			rec(y.X, depth)
		case *ssa.Lookup:
			rec(y.X, depth)
		case *ssa.Next:
			rec(y.Iter, depth)
		case *ssa.Range:
			rec(y.X, depth)
		case *ssa.Alloc:
			for _, sv := range storedInto(y) {
				rec(sv, depth)
			}
		case *ssa.Parameter:
			if !o.ThroughArgs || depth >= o.MaxDepth {
				return
			}
			fn := y.Parent()
			idx := -1
			for i, pa := range fn.Params {
				if pa == y {
					idx = i
				}
			}
			if idx < 0 {
				return
			}
			for _, caller := range p.Funcs {
				allInstrs(caller, func(in ssa.Instruction) {
					ci, ok := in.(ssa.CallInstruction)
					if !ok || ci.Common().StaticCallee() != fn {
						return
					}
					args := ci.Common().Args
					if idx < len(args) {
						rec(args[idx], depth+1)
					}
				})
			}
		}
	}
	rec(v, 0)
}

// derivesFromField: v is computed from a load of field `field` of struct type `owner`.
func (p *Prog) derivesFromField(v ssa.Value, owner, field string, o traceOpts) bool {
	found := false
	p.traceBack(v, o, func(x ssa.Value) bool {
		if found {
			return false
		}
		if n, f, _, ok := fieldOfAddr(x); ok && n != nil && n.Obj().Name() == owner && f == field {
			found = true
			return false
		}
		if n, f, _, ok := loadedField(x); ok && n != nil && n.Obj().Name() == owner && f == field {
			found = true
			return false
		}
		return true
	})
	return found
}

// staticClosure returns fn plus the package functions reachable from it through static
// calls only (no interface dispatch, no function values), up to maxDepth levels; skip
// excludes callees.
func (p *Prog) staticClosure(fn *ssa.Function, maxDepth int, skip func(*ssa.Function) bool) []*ssa.Function {
	seen := map[*ssa.Function]bool{fn: true}
	out := []*ssa.Function{fn}
	frontier := []*ssa.Function{fn}
	for d := 0; d < maxDepth && len(frontier) > 0; d++ {
		var next []*ssa.Function
		for _, f := range frontier {
			fs := append([]*ssa.Function{f}, f.AnonFuncs...)
			for _, g := range fs {
				if !seen[g] {
					seen[g] = true
					out = append(out, g)
				}
				add := func(c *ssa.Function) {
					if c == nil || !p.InPkg(c) || c.Blocks == nil || seen[c] {
						return
					}
					if skip != nil && skip(c) {
						return
					}
					seen[c] = true
					out = append(out, c)
					next = append(next, c)
				}
				allInstrs(g, func(in ssa.Instruction) {
					if ci, ok := in.(ssa.CallInstruction); ok {
						add(ci.Common().StaticCallee())
					}
					// package functions taken as values (`compare := execNumberCompare`) are reached too
					for _, op := range in.Operands(nil) {
						if op != nil && *op != nil {
							if f, ok := (*op).(*ssa.Function); ok && f.Parent() == nil {
								add(f)
							}
						}
					}
				})
			}
		}
		frontier = next
	}
	return out
}

// returnsNonNilError: every path from block b reaches a Return whose error operand
// (last result) is not the nil constant.
func returnsNonNilErrorFrom(b *ssa.BasicBlock) bool {
	fn := b.Parent()
	ei := -1
	if n := fn.Signature.Results().Len(); n > 0 && isErrorType(fn.Signature.Results().At(n-1).Type()) {
		ei = n - 1
	}
	if ei < 0 {
		return false
	}
	seen := map[*ssa.BasicBlock]bool{}
	var dfs func(x *ssa.BasicBlock) bool
	dfs = func(x *ssa.BasicBlock) bool {
		if seen[x] {
			return true
		}
		seen[x] = true
		if r := retOf(x); r != nil {
			return ei < len(r.Results) && !isNilConst(retVal(r, ei))
		}
		if len(x.Succs) == 0 {
			return false
		}
		for _, s := range x.Succs {
			if !dfs(s) {
				return false
			}
		}
		return true
	}
	return dfs(b)
}

// constOf resolves a package-level constant to its int64 value.
func (p *Prog) constOf(name string) (int64, bool) {
	c, ok := p.Types.Scope().Lookup(name).(*types.Const)
	if !ok {
		return 0, false
	}
	v, exact := constant.Int64Val(c.Val())
	return v, exact
}

// retVal resolves result i of a return instruction: in functions with defer statements
// go/ssa spills results into local allocations (`*r = v; rundefers; t = *r; return t`);
// the value stored last in the same block is what is returned.
func retVal(ret *ssa.Return, i int) ssa.Value {
	if i >= len(ret.Results) {
		return nil
	}
	v := ret.Results[i]
	ld, ok := v.(*ssa.UnOp)
	if !ok || ld.Op != token.MUL {
		return v
	}
	al, ok := ld.X.(*ssa.Alloc)
	if !ok {
		return v
	}
	b := ret.Block()
	for k := len(b.Instrs) - 1; k >= 0; k-- {
		if st, ok := b.Instrs[k].(*ssa.Store); ok && st.Addr == ssa.Value(al) {
			return st.Val
		}
	}
	return v
}

// isRecoverBlock: the synthetic block returning the spilled results after a recovered panic.
func isRecoverBlock(b *ssa.BasicBlock) bool {
	return b.Parent().Recover == b
}

// ---------- abstract walk under an assumption ----------

// walkAssuming explores fn's CFG from the entry, deciding each conditional branch with
// `decide` (0 = only the true edge, 1 = only the false edge, -1 = both). It returns the
// set of reachable blocks. This is constant propagation of one assumed fact through
// branch conditions, nothing is executed.
func walkAssuming(fn *ssa.Function, decide func(cond ssa.Value) int) map[*ssa.BasicBlock]bool {
	seen := map[*ssa.BasicBlock]bool{}
	var walk func(b *ssa.BasicBlock)
	walk = func(b *ssa.BasicBlock) {
		if seen[b] {
			return
		}
		seen[b] = true
		if f := ifOf(b); f != nil {
			switch decide(f.Cond) {
			case 0:
				walk(b.Succs[0])
			case 1:
				walk(b.Succs[1])
			default:
				walk(b.Succs[0])
				walk(b.Succs[1])
			}
			return
		}
		for _, s := range b.Succs {
			walk(s)
		}
	}
	if len(fn.Blocks) > 0 {
		walk(fn.Blocks[0])
	}
	return seen
}

// decideEqConst builds a decider for "value matching `isVar` equals constant k": conditions
// of the form (var == c) / (var != c) are decided, everything else explores both edges.
func decideEqConst(isVar func(ssa.Value) bool, k int64) func(ssa.Value) int {
	return func(cond ssa.Value) int {
		a, ok := condAtom(cond, true)
		if !ok || (a.Op != token.EQL && a.Op != token.NEQ) {
			return -1
		}
		x, y := a.X, a.Y
		if c, isC := constInt(x); isC {
			_ = c
			x, y = y, x
		}
		c, isC := constInt(y)
		if !isC || !isVar(x) {
			return -1
		}
		eq := c == k
		if a.Op == token.NEQ {
			eq = !eq
		}
		if eq {
			return 0
		}
		return 1
	}
}

// typedConsts lists the package-level constants of a named type, value -> name.
func (p *Prog) typedConsts(typeName string) map[int64]string {
	out := map[int64]string{}
	sc := p.Types.Scope()
	for _, nm := range sc.Names() {
		c, ok := sc.Lookup(nm).(*types.Const)
		if !ok {
			continue
		}
		n, ok := c.Type().(*types.Named)
		if !ok || n.Obj().Name() != typeName {
			continue
		}
		if v, exact := constant.Int64Val(c.Val()); exact {
			out[v] = nm
		}
	}
	return out
}

// untypedByteConsts: package constants of basic type byte with the given names.
func (p *Prog) namedConsts(names ...string) (map[int64]string, []string) {
	out := map[int64]string{}
	var missing []string
	for _, nm := range names {
		if v, ok := p.constOf(nm); ok {
			out[v] = nm
		} else {
			missing = append(missing, nm)
		}
	}
	return out, missing
}

// mentions: some transitive operand of v (any instruction kind, within the function) satisfies pred.
func mentions(v ssa.Value, pred func(ssa.Value) bool, depth int) bool {
	seen := map[ssa.Value]bool{}
	var rec func(x ssa.Value, d int) bool
	rec = func(x ssa.Value, d int) bool {
		if x == nil || seen[x] {
			return false
		}
		seen[x] = true
		if pred(x) {
			return true
		}
		if d == 0 {
			return false
		}
		if in, ok := x.(ssa.Instruction); ok {
			for _, op := range in.Operands(nil) {
				if *op != nil && rec(*op, d-1) {
					return true
				}
			}
		}
		if al, ok := x.(*ssa.Alloc); ok {
			for _, sv := range storedInto(al) {
				if rec(sv, d-1) {
					return true
				}
			}
		}
		return false
	}
	return rec(v, depth)
}

// orderedBlocks returns the blocks of a set in the function's block order (deterministic iteration).
func orderedBlocks(fn *ssa.Function, set map[*ssa.BasicBlock]bool) []*ssa.BasicBlock {
	var out []*ssa.BasicBlock
	for _, b := range fn.Blocks {
		if set[b] {
			out = append(out, b)
		}
	}
	return out
}
