// kvqlcheck: repository-specific static analyser for c4pt0r/kvql.
//
// It decides structural necessary conditions of the properties in
// /verif/properties.jsonl from the type-checked source and SSA form of /repo's
// working tree. Nothing of kvql is executed.
package main

import (
	"encoding/json"
	"flag"
	"fmt"
	"os"
	"path/filepath"
	"runtime/debug"
	"sort"
	"strconv"
	"strings"
	"sync"
	"time"
)

// Ob is one obligation: a rule instance on a specific construct.
type Ob struct {
	Rule   string `json:"rule"`
	Key    string `json:"key"` // rule|construct, never a line number
	Pos    string `json:"pos"` // file:line of the construct (informational)
	OK     bool   `json:"ok"`
	Detail string `json:"detail"`
}

// Result of running one rule.
type Result struct {
	Rule      string
	Text      string // the rule in words
	Obs       []Ob
	Analysed  map[string]any // what was analysed (functions, sites, tables)
	Undecided []string       // anchors that could not be resolved / floors not met
	Exempt    []string       // frozen exemptions applied, one line each
}

func (r *Result) ok(key, pos, detail string) {
	r.Obs = append(r.Obs, Ob{Rule: r.Rule, Key: r.Rule + "|" + key, Pos: pos, OK: true, Detail: detail})
}
func (r *Result) hit(key, pos, detail string) {
	r.Obs = append(r.Obs, Ob{Rule: r.Rule, Key: r.Rule + "|" + key, Pos: pos, OK: false, Detail: detail})
}
func (r *Result) add(okv bool, key, pos, detail string) {
	if okv {
		r.ok(key, pos, detail)
	} else {
		r.hit(key, pos, detail)
	}
}
func (r *Result) undecided(format string, a ...any) {
	r.Undecided = append(r.Undecided, fmt.Sprintf(format, a...))
}
func (r *Result) note(k string, v any) {
	if r.Analysed == nil {
		r.Analysed = map[string]any{}
	}
	r.Analysed[k] = v
}
func (r *Result) floor(what string, got, min int) {
	if got < min {
		r.undecided("floor: %s = %d, need >= %d (rule would pass vacuously)", what, got, min)
	}
}

type RuleFunc func(p *Prog, r *Result)

type RuleDef struct {
	Name string
	Text string
	Run  RuleFunc
	// Filter optionally restricts which obligations count for a given property
	// (nil = all).
}

var ruleTable = map[string]*RuleDef{}

func register(name, text string, run RuleFunc) {
	ruleTable[name] = &RuleDef{Name: name, Text: text, Run: run}
}

// PropDef maps a property to the rules deciding its structural clauses.
type PropDef struct {
	ID          string
	Rules       []string
	Explanation string
	NotDecided  string
	Assumptions []string
	// KeyFilter restricts obligations of a rule to those relevant for the property:
	// map rule -> predicate on the obligation key. Absent = all.
	KeyFilter map[string]func(key string) bool
}

type KnownFinding struct {
	Property string `json:"property"`
	Key      string `json:"key"`
	Status   string `json:"status"` // "known" | "fixed"
	What     string `json:"what"`
	Commit   string `json:"commit,omitempty"`
	Input    string `json:"failing_input,omitempty"`
}

type KFFile struct {
	Comment  string         `json:"comment"`
	Findings []KnownFinding `json:"findings"`
}

func verifDir() string {
	if d := os.Getenv("VERIF_DIR"); d != "" {
		return d
	}
	exe, err := os.Executable()
	if err == nil {
		d := filepath.Dir(filepath.Dir(exe))
		if _, e := os.Stat(filepath.Join(d, "properties.jsonl")); e == nil {
			return d
		}
	}
	return "/verif"
}

func repoDir() string {
	if d := os.Getenv("KVQL_REPO"); d != "" {
		return d
	}
	return "/repo"
}

func loadKnown() (*KFFile, error) {
	b, err := os.ReadFile(filepath.Join(verifDir(), "known_findings.json"))
	if err != nil {
		if os.IsNotExist(err) {
			return &KFFile{}, nil
		}
		return nil, err
	}
	var k KFFile
	if err := json.Unmarshal(b, &k); err != nil {
		return nil, err
	}
	return &k, nil
}

type RuleEvidence struct {
	Text        string         `json:"rule"`
	Obligations int            `json:"obligations"`
	Hits        int            `json:"hits"`
	Analysed    map[string]any `json:"analysed,omitempty"`
	Exemptions  []string       `json:"exemptions,omitempty"`
	Undecided   []string       `json:"undecided,omitempty"`
	Graph       string         `json:"call_graph,omitempty"`
}

func runRule(p *Prog, name string) (res *Result) {
	def := ruleTable[name]
	res = &Result{Rule: name}
	if def == nil {
		res.undecided("rule %s is not implemented", name)
		return
	}
	res.Text = def.Text
	defer func() {
		if e := recover(); e != nil {
			res.undecided("rule %s panicked: %v\n%s", name, e, string(debug.Stack()))
		}
	}()
	def.Run(p, res)
	return
}

func main() {
	var (
		prop    = flag.String("property", "", "property id (C01..C19)")
		tier    = flag.String("tier", "quick", "quick|thorough")
		rule    = flag.String("rule", "", "run one rule only and print its obligations (debug)")
		explain = flag.String("explain", "", "replay file: re-run the rule on the construct")
		listP   = flag.Bool("list", false, "list properties and rules")
		noEv    = flag.Bool("no-evidence", false, "do not write evidence (used for control runs)")
		jsonOut = flag.Bool("json", false, "print obligations as JSON (with -rule or -property)")
		vta     = flag.Bool("vta", false, "use the VTA call graph (with -rule)")
		selft   = flag.String("selftest", "", "run the control corpus of one rule (or 'all') and print verdicts")
	)
	flag.Parse()
	if t := os.Getenv("VERIF_TIER"); t != "" && !isFlagSet("tier") {
		*tier = t
	}
	if *listP {
		for _, id := range propIDs() {
			fmt.Printf("%s: %s\n", id, strings.Join(propTable[id].Rules, " "))
		}
		return
	}
	start := time.Now()
	if *selft != "" {
		os.Exit(doSelftest(*selft))
	}
	if *explain != "" {
		os.Exit(doExplain(*explain))
	}
	p, err := loadProg(repoDir())
	if *rule != "" {
		if err != nil {
			fmt.Println("LOAD ERROR:", err)
			os.Exit(1)
		}
		p.UseVTA = *vta
		res := runRule(p, *rule)
		if *jsonOut {
			b, _ := json.MarshalIndent(res, "", " ")
			fmt.Println(string(b))
			return
		}
		printResult(res)
		return
	}
	if *prop == "" {
		fmt.Fprintln(os.Stderr, "need -property or -rule")
		os.Exit(2)
	}
	pd := propTable[*prop]
	if pd == nil {
		fmt.Fprintln(os.Stderr, "unknown property", *prop)
		os.Exit(2)
	}
	code := checkProperty(p, err, pd, *tier, start, !*noEv, *jsonOut)
	os.Exit(code)
}

func isFlagSet(name string) bool {
	set := false
	flag.Visit(func(f *flag.Flag) {
		if f.Name == name {
			set = true
		}
	})
	return set
}

func propIDs() []string {
	var ids []string
	for id := range propTable {
		ids = append(ids, id)
	}
	sort.Strings(ids)
	return ids
}

func printResult(res *Result) {
	fmt.Printf("RULE %s: %s\n", res.Rule, res.Text)
	sort.SliceStable(res.Obs, func(i, j int) bool { return res.Obs[i].Key < res.Obs[j].Key })
	hits := 0
	for _, o := range res.Obs {
		s := "ok "
		if !o.OK {
			s = "HIT"
			hits++
		}
		fmt.Printf("  %s %-70s %-24s %s\n", s, o.Key, o.Pos, o.Detail)
	}
	for _, u := range res.Undecided {
		fmt.Println("  UNDECIDED:", u)
	}
	for _, e := range res.Exempt {
		fmt.Println("  EXEMPT:", e)
	}
	for _, k := range sortedKeys(res.Analysed) {
		b, _ := json.Marshal(res.Analysed[k])
		s := string(b)
		if len(s) > 400 {
			s = s[:400] + "..."
		}
		fmt.Printf("  analysed %s = %s\n", k, s)
	}
	fmt.Printf("  obligations=%d hits=%d undecided=%d\n", len(res.Obs), hits, len(res.Undecided))
}

type violation struct {
	Property string `json:"property"`
	Rule     string `json:"rule"`
	Key      string `json:"key"`
	Pos      string `json:"pos"`
	Detail   string `json:"detail"`
	RuleText string `json:"rule_text"`
	Graph    string `json:"call_graph,omitempty"`
	Kind     string `json:"kind"` // violation | undecided | load_error | selftest
}

func checkProperty(p *Prog, loadErr error, pd *PropDef, tier string, start time.Time, writeEv, jsonOut bool) int {
	vd := verifDir()
	evDir := filepath.Join(vd, "evidence")
	replayDir := filepath.Join(evDir, "replay")
	seed := 0
	if s := os.Getenv("VERIF_SEED"); s != "" {
		seed, _ = strconv.Atoi(s)
	}
	if writeEv {
		os.MkdirAll(replayDir, 0o755)
		// remove stale replay files of this property
		old, _ := filepath.Glob(filepath.Join(replayDir, pd.ID+"-*.json"))
		for _, f := range old {
			os.Remove(f)
		}
	}
	var viols []violation
	var planned []string
	var kfLines []string
	ruleEv := map[string]*RuleEvidence{}
	var samples []any
	totalObs, discharged, knownCnt := 0, 0, 0
	distinct := map[string]bool{}
	var assumptions []string
	assumptions = append(assumptions, pd.Assumptions...)
	assumptions = append(assumptions,
		"go/packages + go/types + go/ssa (x/tools v0.29.0) model the program faithfully",
		"calls are visible to the call graph: no unsafe, no reflect.Value.Call/Method (asserted by rule NOREFLECT on every run)",
		"only the structural clauses named in coverage.explanation are decided; value-level behaviour is not")

	if loadErr != nil {
		viols = append(viols, violation{Property: pd.ID, Rule: "LOAD", Key: "LOAD|" + repoDir(), Detail: loadErr.Error(), Kind: "load_error",
			RuleText: "the working tree must load and type-check as one package named kvql"})
	} else {
		kf, err := loadKnown()
		if err != nil {
			viols = append(viols, violation{Property: pd.ID, Rule: "KNOWN", Key: "KNOWN|file", Detail: err.Error(), Kind: "undecided"})
			kf = &KFFile{}
		}
		known := map[string]KnownFinding{}
		for _, k := range kf.Findings {
			if k.Property == pd.ID && k.Status == "known" {
				known[k.Key] = k
			}
		}
		graphs := []bool{false}
		if tier == "thorough" {
			graphs = []bool{false, true}
		}
		seenHit := map[string]bool{}
		rules := []string{"NOREFLECT"}
		for _, rn := range pd.Rules {
			if ruleTable[rn] == nil {
				planned = append(planned, rn)
				continue
			}
			rules = append(rules, rn)
		}
		for _, rn := range rules {
			for gi, useVTA := range graphs {
				if gi > 0 && !graphDependent[rn] {
					continue
				}
				p.UseVTA = useVTA
				p.stor = nil
				res := runRule(p, rn)
				gname := "CHA"
				if useVTA {
					gname = "VTA"
				}
				filter := pd.KeyFilter[rn]
				var obs []Ob
				for _, o := range res.Obs {
					if filter == nil || filter(o.Key) {
						obs = append(obs, o)
					}
				}
				if gi == 0 {
					re := &RuleEvidence{Text: res.Text, Obligations: len(obs), Analysed: res.Analysed, Exemptions: res.Exempt, Undecided: res.Undecided, Graph: gname}
					ruleEv[rn] = re
					totalObs += len(obs)
					if len(samples) < 40 {
						for i, o := range obs {
							if i >= 3 {
								break
							}
							samples = append(samples, map[string]any{"rule": rn, "obligation": o.Key, "at": o.Pos, "ok": o.OK, "detail": o.Detail})
						}
					}
				} else {
					ruleEv[rn].Graph = "CHA+VTA"
				}
				for _, u := range res.Undecided {
					k := "UNDECIDED|" + rn + "|" + u
					if seenHit[k] {
						continue
					}
					seenHit[k] = true
					viols = append(viols, violation{Property: pd.ID, Rule: rn, Key: k, Detail: u, RuleText: res.Text, Kind: "undecided", Graph: gname})
				}
				for _, o := range obs {
					distinct[o.Key] = true
					if o.OK {
						if gi == 0 {
							discharged++
						}
						continue
					}
					if seenHit[o.Key] {
						continue
					}
					seenHit[o.Key] = true
					if gi > 0 {
						// the obligation was counted as discharged under CHA
						discharged--
					}
					ruleEv[rn].Hits++
					if k, ok := known[o.Key]; ok {
						knownCnt++
						kfLines = append(kfLines, fmt.Sprintf("KNOWN-FINDING: property=%s %s — %s [%s]", pd.ID, o.Key, k.What, o.Pos))
						continue
					}
					viols = append(viols, violation{Property: pd.ID, Rule: rn, Key: o.Key, Pos: o.Pos, Detail: o.Detail, RuleText: res.Text, Kind: "violation", Graph: gname})
				}
			}
		}
		p.UseVTA = false
	}

	// thorough tier: control corpus (tests the checker itself)
	var ctl *controlReport
	if tier == "thorough" && loadErr == nil && os.Getenv("KVQLCHECK_NO_CONTROLS") == "" {
		ctl = runControls(pd)
		for _, f := range ctl.Failed {
			viols = append(viols, violation{Property: pd.ID, Rule: "SELFTEST", Key: "SELFTEST|" + f, Detail: "control gave the wrong answer: " + f, Kind: "selftest",
				RuleText: "every applicable positive control must fire on its named construct and every negative control must stay silent"})
		}
	}

	for _, l := range kfLines {
		fmt.Println(l)
	}
	sort.SliceStable(viols, func(i, j int) bool { return viols[i].Key < viols[j].Key })
	for i, v := range viols {
		path := filepath.Join(replayDir, fmt.Sprintf("%s-%d.json", pd.ID, i+1))
		if writeEv {
			b, _ := json.MarshalIndent(v, "", " ")
			os.WriteFile(path, b, 0o644)
		}
		fmt.Printf("VIOLATION property=%s replay=%s\n", pd.ID, path)
		fmt.Printf("  %s %s %s: %s\n", v.Kind, v.Key, v.Pos, v.Detail)
	}

	wall := time.Since(start).Seconds()
	if writeEv {
		cov := map[string]any{
			"explanation":         pd.Explanation,
			"not_decided":         pd.NotDecided,
			"obligations":         totalObs,
			"discharged":          discharged,
			"known_findings":      knownCnt,
			"evaluations":         totalObs,
			"distinct_nontrivial": len(distinct),
			"rule":                "one obligation per (rule, construct) instance found in the SSA/type-checked program of /repo's working tree; distinct = distinct rule|construct keys; every instance is non-trivial (it is a site where the rule can fail)",
			"samples":             samples,
			"rules":               ruleEv,
			"exhaustive":          true,
			"checker_cmd":         "bin/kvqlcheck -property " + pd.ID + " -tier " + tier,
			"trusted_base":        []string{"go/types", "golang.org/x/tools/go/ssa v0.29.0", "golang.org/x/tools/go/callgraph/{cha,rta,vta}", "the frozen specification tables in checker/spec.go"},
		}
		if p != nil {
			cov["files_loaded"] = p.NFiles
			cov["ssa_functions"] = len(p.Funcs)
			cov["local_closures_inlined_before_analysis"] = p.Inlined
		}
		if len(planned) > 0 {
			cov["rules_designed_but_not_yet_built"] = planned
		}
		if ctl != nil {
			cov["controls_fired"] = ctl.Fired
			cov["controls_silent"] = ctl.Silent
			cov["controls_skipped"] = ctl.Skipped
			cov["controls_failed"] = ctl.Failed
		}
		ev := map[string]any{
			"property_id": pd.ID,
			"tier":        tier,
			"seed":        seed,
			"level":       "other",
			"coverage":    cov,
			"assumptions": assumptions,
			"wall_s":      wall,
			"violations":  len(viols),
		}
		b, _ := json.MarshalIndent(ev, "", " ")
		os.MkdirAll(evDir, 0o755)
		if err := os.WriteFile(filepath.Join(evDir, pd.ID+".json"), b, 0o644); err != nil {
			fmt.Fprintln(os.Stderr, "cannot write evidence:", err)
			return 1
		}
	}
	if jsonOut {
		b, _ := json.Marshal(viols)
		fmt.Printf("JSON-VIOLATIONS: %s\n", string(b))
	}
	fmt.Printf("%s tier=%s obligations=%d discharged=%d known=%d violations=%d wall=%.1fs\n", pd.ID, tier, totalObs, discharged, knownCnt, len(viols), wall)
	if len(viols) > 0 {
		return 1
	}
	return 0
}

func doExplain(path string) int {
	b, err := os.ReadFile(path)
	if err != nil {
		fmt.Println(err)
		return 2
	}
	var v violation
	if err := json.Unmarshal(b, &v); err != nil {
		fmt.Println(err)
		return 2
	}
	fmt.Printf("replay %s: property=%s rule=%s\n  construct: %s (%s)\n  rule: %s\n  recorded: %s\n", path, v.Property, v.Rule, v.Key, v.Pos, v.RuleText, v.Detail)
	if ruleTable[v.Rule] == nil {
		return 1
	}
	p, err := loadProg(repoDir())
	if err != nil {
		fmt.Println("LOAD ERROR:", err)
		return 1
	}
	p.UseVTA = v.Graph == "VTA"
	res := runRule(p, v.Rule)
	found := false
	for _, o := range res.Obs {
		if o.Key == v.Key {
			found = true
			st := "HOLDS"
			if !o.OK {
				st = "VIOLATED"
			}
			fmt.Printf("  now: %s at %s: %s\n", st, o.Pos, o.Detail)
			if !o.OK {
				return 1
			}
		}
	}
	for _, u := range res.Undecided {
		fmt.Println("  now UNDECIDED:", u)
		return 1
	}
	if !found {
		fmt.Println("  now: the construct no longer exists in the tree")
	}
	return 0
}

func doSelftest(sel string) int {
	ctls, err := loadControls()
	if err != nil {
		fmt.Println(err)
		return 2
	}
	type job struct {
		c    Control
		prop string
	}
	var jobs []job
	for _, c := range ctls {
		if !(sel == "all" || c.Rule == sel || c.ID == sel || strings.HasPrefix(c.ID, sel)) {
			match := false
			for _, pid := range c.Properties {
				if pid == sel {
					match = true
				}
			}
			if !match {
				continue
			}
		}
		for _, pid := range c.Properties {
			if propTable[pid] == nil {
				continue
			}
			if strings.HasPrefix(sel, "C") && len(sel) == 3 && pid != sel {
				continue
			}
			jobs = append(jobs, job{c, pid})
		}
	}
	type res struct{ id, v, m string }
	out := make([]res, len(jobs))
	var wg sync.WaitGroup
	sem := make(chan struct{}, 8)
	for i, j := range jobs {
		wg.Add(1)
		go func(i int, j job) {
			defer wg.Done()
			sem <- struct{}{}
			defer func() { <-sem }()
			v, m := runOneControl(j.c, j.prop)
			out[i] = res{j.c.ID + "@" + j.prop, v, m}
		}(i, j)
	}
	wg.Wait()
	bad := 0
	cnt := map[string]int{}
	for _, o := range out {
		cnt[o.v]++
		if o.v == "failed" || o.v == "skipped" {
			fmt.Printf("%-10s %-44s %s\n", o.v, o.id, o.m)
		}
		if o.v == "failed" {
			bad++
		}
	}
	fmt.Printf("controls: %v\n", cnt)
	if bad > 0 {
		return 1
	}
	return 0
}
