package main

import (
	"fmt"
	"go/token"
	"go/types"
	"os"
	"sort"
	"strings"

	"golang.org/x/tools/go/ssa"
)

// RANGEALG: finite abstract interpretation of the range algebra of the scan-range optimizer.
//
// inRange, intersectionRange, unionRange, intersectionMgetAndRange and unionMgetAndRange touch their
// key operands only through bytes.Compare / bytes.Equal and nil tests. Their behaviour is therefore a
// function of (which endpoints are nil, the weak order of the others): a finite domain. The rule
// enumerates that domain completely and evaluates the functions' SSA on abstract values (symbols with
// a rank), so every branch condition is decided by the abstract state and every path of these
// functions is covered. The result region is compared with the set-theoretic intersection / union of
// the operand regions. No kvql code is executed and no solver is involved; this is dataflow over a
// finite abstract domain.

func init() {
	register("RANGEALG", "range algebra of the scan-range optimizer, decided over the complete finite domain of endpoint configurations (nil pattern x weak order): AND of two key ranges (and of a key set with a range) yields a region containing the intersection [sound, C02], which is EMPTY when the operands are disjoint and otherwise lies inside one of the operands [tight, C18]; OR yields a region containing the union [sound, C02]; inRange is interval membership", ruleRangeAlg)
}

// ---- abstract values ----

const (
	akUnknown = iota
	akBytes
	akInt
	akBool
	akPtr
	akSlice
	akTuple
	akStruct
	akClosure
)

type aobj struct {
	elems []av
	name  string
}

type av struct {
	k        int
	isNil    bool // bytes / slice / ptr nil
	sym      int  // bytes: symbol id
	i        int64
	b        bool
	obj      *aobj
	off      int // ptr: field/element offset, -1 = whole object
	lo       int // slice window
	hi       int
	tup      []av
	emptyStr bool          // bytes: the constant empty string
	clo      *ssa.Function // closure: the function literal ...
	cbind    []av          // ... and the values of its free variables
}

type acfg struct {
	rank []int    // rank of each symbol (0 = the empty string, the minimum)
	pfx  [][]bool // optional: pfx[i][j] = symbol i is a prefix of symbol j (relational domain of PREFIXALG)
}

// prefixOf: abstract bytes.HasPrefix(s, pre).
func (it *ainterp) prefixOf(pre, s av) (bool, bool) {
	if it.cfg.pfx == nil || pre.k != akBytes || s.k != akBytes {
		return false, false
	}
	if pre.isNil || pre.emptyStr {
		return true, true
	}
	if s.isNil || s.emptyStr {
		return it.rankOf(pre) == 0, true
	}
	return it.cfg.pfx[pre.sym][s.sym], true
}

type ainterp struct {
	p     *Prog
	cfg   *acfg
	steps int
	err   string
	stubs map[*ssa.Function]func(args []av) av // abstract summaries replacing a callee
}

func (it *ainterp) fail(format string, a ...any) {
	if it.err == "" {
		it.err = fmt.Sprintf(format, a...)
	}
}

func (it *ainterp) rankOf(v av) int {
	if v.isNil || v.emptyStr {
		return 0
	}
	return it.cfg.rank[v.sym]
}

func zeroOf(t types.Type) av {
	switch u := t.Underlying().(type) {
	case *types.Basic:
		if u.Info()&types.IsBoolean != 0 {
			return av{k: akBool}
		}
		if u.Info()&types.IsInteger != 0 {
			return av{k: akInt}
		}
	case *types.Slice:
		if b, ok := u.Elem().(*types.Basic); ok && b.Kind() == types.Uint8 {
			return av{k: akBytes, isNil: true}
		}
		return av{k: akSlice, isNil: true}
	case *types.Pointer:
		return av{k: akPtr, isNil: true}
	case *types.Struct:
		o := &aobj{}
		for i := 0; i < u.NumFields(); i++ {
			o.elems = append(o.elems, zeroOf(u.Field(i).Type()))
		}
		return av{k: akStruct, obj: o}
	case *types.Array:
		o := &aobj{}
		for i := int64(0); i < u.Len(); i++ {
			o.elems = append(o.elems, zeroOf(u.Elem()))
		}
		return av{k: akStruct, obj: o}
	}
	return av{k: akUnknown}
}

// call interprets fn on abstract arguments and returns its results.
func (it *ainterp) call(fn *ssa.Function, args []av, depth int) []av {
	return it.callBound(fn, args, nil, depth)
}

// callBound interprets fn with the given arguments and, for a function literal, the values of its free variables.
func (it *ainterp) callBound(fn *ssa.Function, args []av, bind []av, depth int) []av {
	if it.err != "" {
		return nil
	}
	if depth > 6 || fn.Blocks == nil {
		it.fail("cannot interpret %s", fn.Name())
		return nil
	}
	env := map[ssa.Value]av{}
	for i, pa := range fn.Params {
		if i < len(args) {
			env[pa] = args[i]
		}
	}
	for i, fv := range fn.FreeVars {
		if i < len(bind) {
			env[fv] = bind[i]
		}
	}
	val := func(v ssa.Value) av {
		switch c := v.(type) {
		case *ssa.Const:
			if c.Value == nil {
				z := zeroOf(c.Type())
				return z
			}
			if bv, ok := constBool(c); ok {
				return av{k: akBool, b: bv}
			}
			if iv, ok := constInt(c); ok {
				return av{k: akInt, i: iv}
			}
			if sv, ok := constString(c); ok && sv == "" {
				return av{k: akBytes, emptyStr: true}
			}
			return av{k: akUnknown}
		case *ssa.Function:
			if c.Blocks != nil && len(c.FreeVars) == 0 {
				return av{k: akClosure, clo: c}
			}
			return av{k: akUnknown}
		case *ssa.Global, *ssa.Builtin:
			return av{k: akUnknown}
		}
		if x, ok := env[v]; ok {
			return x
		}
		return av{k: akUnknown}
	}
	var prev *ssa.BasicBlock
	b := fn.Blocks[0]
	for {
		var next *ssa.BasicBlock
		for _, in := range b.Instrs {
			it.steps++
			if it.steps > 200000 {
				it.fail("step limit exceeded in %s", fn.Name())
				return nil
			}
			if it.err != "" {
				return nil
			}
			switch x := in.(type) {
			case *ssa.Phi:
				for i, pr := range b.Preds {
					if pr == prev {
						env[x] = val(x.Edges[i])
					}
				}
			case *ssa.Alloc:
				z := zeroOf(deref(x.Type()))
				if z.k == akStruct {
					env[x] = av{k: akPtr, obj: z.obj, off: -1}
				} else {
					env[x] = av{k: akPtr, obj: &aobj{elems: []av{z}}, off: 0}
				}
			case *ssa.FieldAddr:
				pv := val(x.X)
				if pv.k != akPtr || pv.obj == nil {
					it.fail("field address of a non-object in %s", fn.Name())
					return nil
				}
				base := pv.obj
				if pv.off >= 0 {
					// pointer to a struct stored inside another object
					inner := base.elems[pv.off]
					if inner.k != akStruct {
						it.fail("unsupported nested field address in %s", fn.Name())
						return nil
					}
					base = inner.obj
				}
				env[x] = av{k: akPtr, obj: base, off: x.Field}
			case *ssa.IndexAddr:
				pv, iv := val(x.X), val(x.Index)
				if iv.k != akInt {
					it.fail("non-constant index in %s", fn.Name())
					return nil
				}
				switch pv.k {
				case akSlice:
					idx := pv.lo + int(iv.i)
					if pv.obj == nil || idx < pv.lo || idx >= pv.hi {
						it.fail("index %d out of range in %s", iv.i, fn.Name())
						return nil
					}
					env[x] = av{k: akPtr, obj: pv.obj, off: idx}
				case akPtr:
					if pv.obj == nil || int(iv.i) >= len(pv.obj.elems) {
						it.fail("array index out of range in %s", fn.Name())
						return nil
					}
					env[x] = av{k: akPtr, obj: pv.obj, off: int(iv.i)}
				default:
					it.fail("index of unsupported value in %s", fn.Name())
					return nil
				}
			case *ssa.Store:
				a := val(x.Addr)
				if a.k != akPtr || a.obj == nil || a.off < 0 || a.off >= len(a.obj.elems) {
					it.fail("store through unsupported address in %s", fn.Name())
					return nil
				}
				a.obj.elems[a.off] = val(x.Val)
			case *ssa.UnOp:
				v := val(x.X)
				switch x.Op {
				case token.MUL:
					if v.k != akPtr || v.obj == nil {
						it.fail("load through unsupported pointer in %s", fn.Name())
						return nil
					}
					if v.off < 0 {
						env[x] = av{k: akStruct, obj: v.obj}
					} else {
						env[x] = v.obj.elems[v.off]
					}
				case token.NOT:
					env[x] = av{k: akBool, b: !v.b}
				case token.SUB:
					env[x] = av{k: akInt, i: -v.i}
				default:
					it.fail("unsupported unary operator in %s", fn.Name())
					return nil
				}
			case *ssa.BinOp:
				l, r := val(x.X), val(x.Y)
				env[x] = it.binop(x.Op, l, r, fn)
			case *ssa.Slice:
				v := val(x.X)
				lo, hi := 0, -1
				if x.Low != nil {
					lo = int(val(x.Low).i)
				}
				switch v.k {
				case akPtr:
					if hi < 0 {
						hi = len(v.obj.elems)
					}
					if x.High != nil {
						hi = int(val(x.High).i)
					}
					env[x] = av{k: akSlice, obj: v.obj, lo: lo, hi: hi}
				case akSlice:
					h := v.hi
					if x.High != nil {
						h = v.lo + int(val(x.High).i)
					}
					env[x] = av{k: akSlice, obj: v.obj, lo: v.lo + lo, hi: h, isNil: v.isNil && v.obj == nil}
				default:
					it.fail("slice of unsupported value in %s", fn.Name())
					return nil
				}
			case *ssa.TypeAssert:
				v := val(x.X)
				match := false
				if v.k == akPtr && v.obj != nil && v.obj.name != "" {
					if n := namedOf(x.AssertedType); n != nil && n.Obj().Name() == v.obj.name {
						if _, isPtr := x.AssertedType.(*types.Pointer); isPtr {
							match = true
						}
					}
				} else if !(v.k == akPtr && v.isNil) {
					it.fail("type assertion on a value without an abstract dynamic type in %s (%s)", fn.Name(), it.p.InstrPos(x))
					return nil
				}
				if x.CommaOk {
					if match {
						env[x] = av{k: akTuple, tup: []av{v, {k: akBool, b: true}}}
					} else {
						env[x] = av{k: akTuple, tup: []av{{k: akPtr, isNil: true}, {k: akBool, b: false}}}
					}
				} else {
					if !match {
						it.fail("failing type assertion in %s (%s)", fn.Name(), it.p.InstrPos(x))
						return nil
					}
					env[x] = v
				}
			case *ssa.MakeSlice:
				ln := val(x.Len)
				if ln.k != akInt {
					it.fail("make with a non-constant length in %s", fn.Name())
					return nil
				}
				o := &aobj{}
				if sl, ok := x.Type().Underlying().(*types.Slice); ok {
					for i := int64(0); i < ln.i; i++ {
						o.elems = append(o.elems, zeroOf(sl.Elem()))
					}
				}
				env[x] = av{k: akSlice, obj: o, lo: 0, hi: len(o.elems)}
			case *ssa.ChangeInterface:
				env[x] = val(x.X)
			case *ssa.MakeInterface:
				env[x] = val(x.X)
			case *ssa.ChangeType:
				env[x] = val(x.X)
			case *ssa.Convert:
				env[x] = val(x.X)
			case *ssa.Extract:
				t := val(x.Tuple)
				if t.k == akTuple && x.Index < len(t.tup) {
					env[x] = t.tup[x.Index]
				} else {
					env[x] = av{k: akUnknown}
				}
			case *ssa.Call:
				env[x] = it.doCall(x, val, depth)
			case *ssa.MakeClosure:
				cl := av{k: akClosure, clo: x.Fn.(*ssa.Function)}
				for _, bv := range x.Bindings {
					cl.cbind = append(cl.cbind, val(bv))
				}
				env[x] = cl
			case *ssa.If:
				c := val(x.Cond)
				if c.k != akBool {
					it.fail("branch on a value the abstract domain does not decide in %s (%s)", fn.Name(), it.p.InstrPos(x))
					return nil
				}
				if c.b {
					next = b.Succs[0]
				} else {
					next = b.Succs[1]
				}
			case *ssa.Jump:
				next = b.Succs[0]
			case *ssa.Return:
				var out []av
				for _, rv := range x.Results {
					out = append(out, val(rv))
				}
				return out
			case *ssa.DebugRef:
			default:
				it.fail("unsupported instruction %T in %s", in, fn.Name())
				return nil
			}
		}
		if next == nil {
			it.fail("fell off block in %s", fn.Name())
			return nil
		}
		prev, b = b, next
	}
}

func (it *ainterp) binop(op token.Token, l, r av, fn *ssa.Function) av {
	switch {
	case l.k == akInt && r.k == akInt:
		switch op {
		case token.ADD:
			return av{k: akInt, i: l.i + r.i}
		case token.SUB:
			return av{k: akInt, i: l.i - r.i}
		case token.EQL:
			return av{k: akBool, b: l.i == r.i}
		case token.NEQ:
			return av{k: akBool, b: l.i != r.i}
		case token.LSS:
			return av{k: akBool, b: l.i < r.i}
		case token.LEQ:
			return av{k: akBool, b: l.i <= r.i}
		case token.GTR:
			return av{k: akBool, b: l.i > r.i}
		case token.GEQ:
			return av{k: akBool, b: l.i >= r.i}
		}
	case l.k == akBool && r.k == akBool:
		switch op {
		case token.EQL:
			return av{k: akBool, b: l.b == r.b}
		case token.NEQ:
			return av{k: akBool, b: l.b != r.b}
		}
	case (l.k == akBytes || l.k == akSlice || l.k == akPtr) && (r.k == akBytes || r.k == akSlice || r.k == akPtr):
		// comparison with nil
		if r.isNil || l.isNil {
			eq := l.isNil && r.isNil
			if op == token.EQL {
				return av{k: akBool, b: eq}
			}
			if op == token.NEQ {
				return av{k: akBool, b: !eq}
			}
		}
		if l.k == akBytes && r.k == akBytes && !l.isNil && !r.isNil {
			// Go strings (converted key bytes): ordered by rank
			d := it.rankOf(l) - it.rankOf(r)
			switch op {
			case token.EQL:
				return av{k: akBool, b: d == 0}
			case token.NEQ:
				return av{k: akBool, b: d != 0}
			case token.LSS:
				return av{k: akBool, b: d < 0}
			case token.LEQ:
				return av{k: akBool, b: d <= 0}
			case token.GTR:
				return av{k: akBool, b: d > 0}
			case token.GEQ:
				return av{k: akBool, b: d >= 0}
			}
		}
		if l.k == akPtr && r.k == akPtr {
			eq := l.obj == r.obj && l.off == r.off
			if op == token.EQL {
				return av{k: akBool, b: eq}
			}
			if op == token.NEQ {
				return av{k: akBool, b: !eq}
			}
		}
	}
	it.fail("unsupported binary operation %s in %s", op, fn.Name())
	return av{k: akUnknown}
}

func (it *ainterp) doCall(c *ssa.Call, val func(ssa.Value) av, depth int) av {
	if b, ok := c.Call.Value.(*ssa.Builtin); ok {
		switch b.Name() {
		case "len":
			v := val(c.Call.Args[0])
			if v.k == akSlice {
				if v.obj == nil {
					return av{k: akInt}
				}
				return av{k: akInt, i: int64(v.hi - v.lo)}
			}
			it.fail("len of unsupported value")
			return av{}
		case "append":
			s, add := val(c.Call.Args[0]), val(c.Call.Args[1])
			o := &aobj{}
			if s.k == akSlice && s.obj != nil {
				o.elems = append(o.elems, s.obj.elems[s.lo:s.hi]...)
			}
			if add.k == akSlice && add.obj != nil {
				o.elems = append(o.elems, add.obj.elems[add.lo:add.hi]...)
			}
			return av{k: akSlice, obj: o, lo: 0, hi: len(o.elems)}
		}
		it.fail("unsupported builtin %s", b.Name())
		return av{}
	}
	f := c.Call.StaticCallee()
	if f == nil && !c.Call.IsInvoke() {
		// a call of a function value: a function literal made in the code under interpretation
		if cv := val(c.Call.Value); cv.k == akClosure && cv.clo != nil {
			var args []av
			for _, a := range c.Call.Args {
				args = append(args, val(a))
			}
			res := it.callBound(cv.clo, args, cv.cbind, depth+1)
			if len(res) == 1 {
				return res[0]
			}
			return av{k: akTuple, tup: res}
		}
	}
	if f == nil {
		it.fail("dynamic call")
		return av{}
	}
	// the generic helpers of package slices are plain loops over their arguments: interpreted like package code
	if f.Blocks != nil && f.Origin() != nil && f.Origin().Pkg != nil && f.Origin().Pkg.Pkg.Path() == "slices" {
		var args []av
		for _, a := range c.Call.Args {
			args = append(args, val(a))
		}
		res := it.call(f, args, depth+1)
		if len(res) == 1 {
			return res[0]
		}
		return av{k: akTuple, tup: res}
	}
	switch it.p.qualName(f) {
	case "bytes.Compare":
		l, r := val(c.Call.Args[0]), val(c.Call.Args[1])
		if l.k != akBytes || r.k != akBytes {
			it.fail("bytes.Compare on unsupported values")
			return av{}
		}
		d := it.rankOf(l) - it.rankOf(r)
		switch {
		case d < 0:
			return av{k: akInt, i: -1}
		case d > 0:
			return av{k: akInt, i: 1}
		}
		return av{k: akInt, i: 0}
	case "bytes.Equal":
		l, r := val(c.Call.Args[0]), val(c.Call.Args[1])
		return av{k: akBool, b: it.rankOf(l) == it.rankOf(r)}
	case "bytes.HasPrefix", "strings.HasPrefix":
		b, ok := it.prefixOf(val(c.Call.Args[1]), val(c.Call.Args[0]))
		if !ok {
			it.fail("HasPrefix outside the abstract domain")
			return av{}
		}
		return av{k: akBool, b: b}
	case "fmt.Println", "fmt.Printf":
		return av{k: akTuple, tup: []av{{k: akInt}, {k: akUnknown}}}
	}
	if !it.p.InPkg(f) {
		it.fail("call to %s is outside the abstract domain", it.p.qualName(f))
		return av{}
	}
	var args []av
	for _, a := range c.Call.Args {
		args = append(args, val(a))
	}
	if st, ok := it.stubs[f]; ok {
		return st(args)
	}
	res := it.call(f, args, depth+1)
	if len(res) == 1 {
		return res[0]
	}
	return av{k: akTuple, tup: res}
}

// ---- regions ----

// ext is an extended rank: -inf, a rank, or +inf.
type ext struct {
	inf int // -1, 0, +1
	r   int
}

func (a ext) cmp(b ext) int {
	if a.inf != b.inf {
		if a.inf < b.inf {
			return -1
		}
		return 1
	}
	if a.inf != 0 {
		return 0
	}
	switch {
	case a.r < b.r:
		return -1
	case a.r > b.r:
		return 1
	}
	return 0
}

type region struct {
	empty  bool
	lo, hi ext
}

func full() region { return region{lo: ext{r: 0}, hi: ext{inf: 1}} }

func (it *ainterp) startOf(v av) ext {
	if v.isNil {
		return ext{r: 0} // an open start: no key is smaller than the empty string (rank 0)
	}
	return ext{r: it.rankOf(v)}
}

func (it *ainterp) endOf(v av) ext {
	if v.isNil {
		return ext{inf: 1}
	}
	return ext{r: it.rankOf(v)}
}

func mkRegion(lo, hi ext) region {
	if lo.cmp(hi) > 0 {
		return region{empty: true}
	}
	return region{lo: lo, hi: hi}
}

func (a region) contains(b region) bool {
	if b.empty {
		return true
	}
	if a.empty {
		return false
	}
	return a.lo.cmp(b.lo) <= 0 && a.hi.cmp(b.hi) >= 0
}

func maxExt(a, b ext) ext {
	if a.cmp(b) >= 0 {
		return a
	}
	return b
}
func minExt(a, b ext) ext {
	if a.cmp(b) <= 0 {
		return a
	}
	return b
}

// decodeScan turns an abstract *ScanType into a list of regions (one for RANGE/FULL/EMPTY, one per key for MGET).
func (it *ainterp) decodeScan(v av, sc map[string]int64) (kind string, regs []region, ok bool) {
	if v.k != akPtr || v.obj == nil || len(v.obj.elems) < 2 {
		return "", nil, false
	}
	tp := v.obj.elems[0]
	keys := v.obj.elems[1]
	var ks []av
	if keys.k == akSlice && keys.obj != nil {
		ks = keys.obj.elems[keys.lo:keys.hi]
	}
	switch tp.i {
	case sc["EMPTY"]:
		return "EMPTY", []region{{empty: true}}, true
	case sc["FULL"]:
		return "FULL", []region{full()}, true
	case sc["MGET"]:
		for _, k := range ks {
			if k.k != akBytes {
				return "MGET", nil, false
			}
			e := ext{r: it.rankOf(k)}
			regs = append(regs, region{lo: e, hi: e})
		}
		return "MGET", regs, true
	case sc["RANGE"]:
		if len(ks) != 2 {
			return "RANGE", nil, false
		}
		return "RANGE", []region{mkRegion(it.startOf(ks[0]), it.endOf(ks[1]))}, true
	}
	return fmt.Sprint(tp.i), nil, false
}

func containsAll(out []region, want []region) bool {
	for _, w := range want {
		if w.empty {
			continue
		}
		ok := false
		for _, o := range out {
			if o.contains(w) {
				ok = true
			}
		}
		if !ok {
			return false
		}
	}
	return true
}

// weakOrders enumerates all rank assignments of n symbols (ranks 0..n, rank 0 = the empty string),
// up to renaming of ranks: every assignment whose used positive ranks form an initial segment.
func weakOrders(n int) [][]int {
	var out [][]int
	cur := make([]int, n)
	var rec func(i int)
	rec = func(i int) {
		if i == n {
			// canonical: set of positive ranks used = {1..m}
			used := map[int]bool{}
			mx := 0
			for _, r := range cur {
				if r > 0 {
					used[r] = true
					if r > mx {
						mx = r
					}
				}
			}
			for k := 1; k <= mx; k++ {
				if !used[k] {
					return
				}
			}
			out = append(out, append([]int(nil), cur...))
			return
		}
		for r := 0; r <= n; r++ {
			cur[i] = r
			rec(i + 1)
		}
	}
	rec(0)
	return out
}

func (p *Prog) newScan(sc map[string]int64, kind string, keys []av) av {
	ks := &aobj{elems: keys}
	o := &aobj{elems: []av{{k: akInt, i: sc[kind]}, {k: akSlice, obj: ks, lo: 0, hi: len(keys)}}}
	return av{k: akPtr, obj: o, off: -1}
}

func (it *ainterp) showScan(v av, kind string) string {
	if v.k != akPtr || v.obj == nil || len(v.obj.elems) < 2 {
		return kind
	}
	keys := v.obj.elems[1]
	if keys.k != akSlice || keys.obj == nil {
		return kind
	}
	var parts []string
	for _, k := range keys.obj.elems[keys.lo:keys.hi] {
		if k.isNil {
			parts = append(parts, "nil")
		} else {
			parts = append(parts, fmt.Sprintf("#%d", it.rankOf(k)))
		}
	}
	return kind + "{" + strings.Join(parts, ",") + "}"
}

func describe(nilMask []bool, rank []int, names []string) string {
	var parts []string
	for i, nm := range names {
		if nilMask[i] {
			parts = append(parts, nm+"=nil")
		} else {
			parts = append(parts, fmt.Sprintf("%s=#%d", nm, rank[i]))
		}
	}
	return strings.Join(parts, " ")
}

func ruleRangeAlg(p *Prog, r *Result) {
	sc, missing := p.scanConsts()
	if len(missing) > 0 {
		r.undecided("anchor: scan kind constants %v not found", missing)
		return
	}
	recv := av{k: akPtr, obj: &aobj{elems: []av{{k: akUnknown}, {k: akUnknown}, {k: akUnknown}}}, off: -1}
	type fnSpec struct {
		name string
		mode string // "and" | "or"
	}
	total := 0
	// ---- range x range ----
	for _, fs := range []fnSpec{{"intersectionRange", "and"}, {"unionRange", "or"}} {
		fn := p.MethodByName("FilterOptimizer", fs.name)
		if fn == nil {
			r.undecided("anchor: (*FilterOptimizer).%s not found", fs.name)
			continue
		}
		names := []string{"lstart", "lend", "rstart", "rend"}
		var unsound, loose, errs, open2 []string
		n := 0
		for mask := 0; mask < 16; mask++ {
			nilMask := []bool{mask&1 != 0, mask&2 != 0, mask&4 != 0, mask&8 != 0}
			if (nilMask[0] && nilMask[1]) || (nilMask[2] && nilMask[3]) {
				continue // a RANGE with both bounds nil is not produced by any atom handler
			}
			for _, rank := range weakOrders(4) {
				// nil symbols: rank irrelevant, fix to 0 to avoid duplicates
				skip := false
				for i := range rank {
					if nilMask[i] && rank[i] != 0 {
						skip = true
					}
				}
				// well-formed ranges: start <= end
				if !nilMask[0] && !nilMask[1] && rank[0] > rank[1] {
					skip = true
				}
				if !nilMask[2] && !nilMask[3] && rank[2] > rank[3] {
					skip = true
				}
				// a half-bounded range never carries the empty string: the atom handlers turn
				// `key > ''` into FULL and `key < ''` into EMPTY; only BETWEEN can name ''
				// (the union handlers do produce them: `key = '' | key >= 'b'` is RANGE['', nil), so half-bounded
				// ranges carrying the empty string are part of the domain)
				if skip {
					continue
				}
				n++
				it := &ainterp{p: p, cfg: &acfg{rank: rank}}
				sym := func(i int) av {
					if nilMask[i] {
						return av{k: akBytes, isNil: true}
					}
					return av{k: akBytes, sym: i}
				}
				L := mkRegion(it.startOf(sym(0)), it.endOf(sym(1)))
				R := mkRegion(it.startOf(sym(2)), it.endOf(sym(3)))
				l := p.newScan(sc, "RANGE", []av{sym(0), sym(1)})
				rr := p.newScan(sc, "RANGE", []av{sym(2), sym(3)})
				res := it.call(fn, []av{recv, l, rr}, 0)
				desc := describe(nilMask, rank, names)
				if it.err != "" || len(res) != 1 {
					errs = append(errs, desc+": "+it.err)
					continue
				}
				if bothNilRange(res[0], sc) || it.reversedRange(res[0], sc) {
					open2 = append(open2, desc)
				}
				kind, regs, ok := it.decodeScan(res[0], sc)
				if !ok {
					errs = append(errs, desc+": result "+kind+" is ill-formed")
					continue
				}
				if fs.mode == "and" {
					I := mkRegion(maxExt(L.lo, R.lo), minExt(L.hi, R.hi))
					if L.empty || R.empty {
						I = region{empty: true}
					}
					if !containsAll(regs, []region{I}) {
						unsound = append(unsound, fmt.Sprintf("%s -> %s", desc, it.showScan(res[0], kind)))
					}
					tight := false
					if I.empty {
						tight = kind == "EMPTY"
					} else {
						for _, o := range regs {
							if L.contains(o) || R.contains(o) {
								tight = true
							}
						}
					}
					if !tight {
						loose = append(loose, fmt.Sprintf("%s -> %s", desc, it.showScan(res[0], kind)))
					}
				} else {
					if !containsAll(regs, []region{L, R}) {
						unsound = append(unsound, fmt.Sprintf("%s -> %s", desc, it.showScan(res[0], kind)))
					}
				}
			}
		}
		total += n
		r.note(fs.name+"_configurations", n)
		sort.Strings(unsound)
		sort.Strings(loose)
		r.add(len(open2) == 0, fs.name+"|closed", p.Pos(fn.Pos()), fmt.Sprintf("the result is never a range open on both sides (such a range is not an operand of the algebra: everything is FULL); %d counter-configurations %v", len(open2), head(open2, 3)))
		r.add(len(errs) == 0, fs.name+"|interpretable", p.Pos(fn.Pos()), fmt.Sprintf("%d configurations evaluated; %d outside the abstract domain %v", n, len(errs), head(errs, 2)))
		r.add(len(unsound) == 0, fs.name+"|sound", p.Pos(fn.Pos()), fmt.Sprintf("result covers the %s of the operand ranges in all %d endpoint configurations; %d counter-configurations %v", map[string]string{"and": "intersection", "or": "union"}[fs.mode], n, len(unsound), head(unsound, 3)))
		if fs.mode == "and" {
			r.add(len(loose) == 0, fs.name+"|tight", p.Pos(fn.Pos()), fmt.Sprintf("EMPTY for disjoint operands and otherwise inside one operand, in all %d configurations; %d counter-configurations %v", n, len(loose), head(loose, 3)))
		}
	}
	// ---- key set x range ----
	for _, fs := range []fnSpec{{"intersectionMgetAndRange", "and"}, {"unionMgetAndRange", "or"}} {
		fn := p.MethodByName("FilterOptimizer", fs.name)
		if fn == nil {
			r.undecided("anchor: (*FilterOptimizer).%s not found", fs.name)
			continue
		}
		var unsound, loose, errs, open2 []string
		n := 0
		for nk := 1; nk <= 3; nk++ {
			names := []string{"rstart", "rend", "k1", "k2", "k3"}[:2+nk]
			for mask := 0; mask < 3; mask++ {
				nilMask := make([]bool, 2+nk)
				nilMask[0], nilMask[1] = mask == 1, mask == 2
				for _, rank := range weakOrders(2 + nk) {
					skip := false
					for i := range rank {
						if nilMask[i] && rank[i] != 0 {
							skip = true
						}
					}
					if !nilMask[0] && !nilMask[1] && rank[0] > rank[1] {
						skip = true
					}
					if skip {
						continue
					}
					n++
					it := &ainterp{p: p, cfg: &acfg{rank: rank}}
					sym := func(i int) av {
						if nilMask[i] {
							return av{k: akBytes, isNil: true}
						}
						return av{k: akBytes, sym: i}
					}
					R := mkRegion(it.startOf(sym(0)), it.endOf(sym(1)))
					var keys []av
					var pts []region
					for j := 0; j < nk; j++ {
						keys = append(keys, sym(2+j))
						e := ext{r: rank[2+j]}
						pts = append(pts, region{lo: e, hi: e})
					}
					mg := p.newScan(sc, "MGET", keys)
					rg := p.newScan(sc, "RANGE", []av{sym(0), sym(1)})
					res := it.call(fn, []av{recv, mg, rg}, 0)
					desc := describe(nilMask, rank, names)
					if it.err != "" || len(res) != 1 {
						errs = append(errs, desc+": "+it.err)
						continue
					}
					if bothNilRange(res[0], sc) || it.reversedRange(res[0], sc) {
						open2 = append(open2, desc)
					}
					kind, regs, ok := it.decodeScan(res[0], sc)
					if !ok {
						errs = append(errs, desc+": result "+kind+" is ill-formed")
						continue
					}
					if fs.mode == "and" {
						var want []region
						for _, pt := range pts {
							if R.contains(pt) {
								want = append(want, pt)
							}
						}
						if !containsAll(regs, want) {
							unsound = append(unsound, fmt.Sprintf("%s -> %s", desc, it.showScan(res[0], kind)))
						}
						// tight: only listed keys (or nothing) are read
						tight := kind == "EMPTY" && len(want) == 0
						if kind == "MGET" {
							tight = true
							for _, o := range regs {
								in := false
								for _, pt := range pts {
									if pt.contains(o) {
										in = true
									}
								}
								if !in {
									tight = false
								}
							}
							if len(want) == 0 {
								tight = false
							}
						}
						if !tight {
							loose = append(loose, fmt.Sprintf("%s -> %s", desc, it.showScan(res[0], kind)))
						}
					} else {
						if !containsAll(regs, append([]region{R}, pts...)) {
							unsound = append(unsound, fmt.Sprintf("%s -> %s", desc, it.showScan(res[0], kind)))
						}
					}
				}
			}
		}
		total += n
		r.note(fs.name+"_configurations", n)
		sort.Strings(unsound)
		sort.Strings(loose)
		r.add(len(open2) == 0, fs.name+"|closed", p.Pos(fn.Pos()), fmt.Sprintf("the result is never a range open on both sides (such a range is not an operand of the algebra: everything is FULL); %d counter-configurations %v", len(open2), head(open2, 3)))
		r.add(len(errs) == 0, fs.name+"|interpretable", p.Pos(fn.Pos()), fmt.Sprintf("%d configurations evaluated; %d outside the abstract domain %v", n, len(errs), head(errs, 2)))
		r.add(len(unsound) == 0, fs.name+"|sound", p.Pos(fn.Pos()), fmt.Sprintf("result covers the %s of key set and range in all %d configurations; %d counter-configurations %v", map[string]string{"and": "intersection", "or": "union"}[fs.mode], n, len(unsound), head(unsound, 3)))
		if fs.mode == "and" {
			r.add(len(loose) == 0, fs.name+"|tight", p.Pos(fn.Pos()), fmt.Sprintf("only listed keys inside the range are read (EMPTY if none) in all %d configurations; %d counter-configurations %v", n, len(loose), head(loose, 3)))
		}
	}
	r.note("configurations_total", total)
	r.floor("endpoint configurations evaluated", total, 500)
}

func head(s []string, n int) []string {
	if os.Getenv("KVQLCHECK_FULL") != "" {
		return s
	}
	if len(s) > n {
		return append(append([]string{}, s[:n]...), "...")
	}
	return s
}

// ---------------- PREFIXALG ----------------
//
// The prefix members of the algebra (intersectionPrefix, unionPrefix, intersectionPrefixAndRange,
// unionPrefixAndRange, intersectionMgetAndPrefix, unionMgetAndPrefix) touch their key operands
// through bytes.Compare/Equal, HasPrefix, string comparison and nil tests only. Their behaviour
// is a function of the relational structure (weak order, prefix relation, nil pattern) of the
// operand strings. That structure ranges over a finite set for a fixed number of strings; it is
// enumerated through canonical representatives (all strings over {a,b} up to length 4, which
// realise every order/prefix structure of up to four strings), and region membership of an
// additional probe key - again only its relations to the operands matter - decides containment.

func init() {
	register("PREFIXALG", "prefix members of the scan-range algebra, decided over the complete finite domain of (order, prefix-relation, nil) structures of the operand strings plus one probe key: AND of a prefix with a prefix / range / key set yields a region containing every key both operands contain [sound, C02], and no key when the operands share none [tight, C18]; OR yields a region containing every key of either operand [sound, C02]", rulePrefixAlg)
}

type relCfg struct {
	rep  []string
	rank []int
	pfx  [][]bool
}

func relStructure(rep []string) *relCfg {
	n := len(rep)
	c := &relCfg{rep: append([]string(nil), rep...), rank: make([]int, n), pfx: make([][]bool, n)}
	uniq := map[string]bool{}
	for _, s := range rep {
		uniq[s] = true
	}
	var sorted []string
	for s := range uniq {
		sorted = append(sorted, s)
	}
	sort.Strings(sorted)
	base := 1
	if len(sorted) > 0 && sorted[0] == "" {
		base = 0
	}
	pos := map[string]int{}
	for i, s := range sorted {
		pos[s] = i + base
	}
	for i := range rep {
		c.rank[i] = pos[rep[i]]
		c.pfx[i] = make([]bool, n)
		for j := range rep {
			c.pfx[i][j] = strings.HasPrefix(rep[j], rep[i])
		}
	}
	return c
}

func (c *relCfg) sig(n int) string {
	var b strings.Builder
	for i := 0; i < n; i++ {
		fmt.Fprintf(&b, "%d", c.rank[i])
		for j := 0; j < n; j++ {
			if c.pfx[i][j] {
				b.WriteByte('p')
			} else {
				b.WriteByte('-')
			}
		}
		b.WriteByte(';')
	}
	return b.String()
}

var relUniverse = func() []string {
	u := []string{""}
	var rec func(pre string, d int)
	rec = func(pre string, d int) {
		if d == 0 {
			return
		}
		for _, ch := range "ab" {
			s := pre + string(ch)
			u = append(u, s)
			rec(s, d-1)
		}
	}
	rec("", 4)
	return u
}()

// relGroups enumerates the structures of n operand strings; for each, the structures of the
// operands extended with one probe string. Structures are identified by their pairwise
// (order, prefix) codes.
var relPair = buildRelPair(relUniverse)

func buildRelPair(u []string) [][]uint8 {
	m := make([][]uint8, len(u))
	for i := range u {
		m[i] = make([]uint8, len(u))
		for j := range u {
			var c uint8
			switch {
			case u[i] < u[j]:
				c = 0
			case u[i] == u[j]:
				c = 1
			default:
				c = 2
			}
			if strings.HasPrefix(u[j], u[i]) {
				c += 3
			}
			if strings.HasPrefix(u[i], u[j]) {
				c += 6
			}
			m[i][j] = c
		}
	}
	return m
}

func relGroups(n int, admit func(rep []string) bool) (groups []*relCfg, probes map[string][]*relCfg) {
	probes = map[string][]*relCfg{}
	seenG := map[uint64]string{}
	seenP := map[uint64]bool{}
	idx := make([]int, n+1)
	cur := make([]string, n+1)
	code := func(m int) uint64 {
		var c uint64
		for i := 0; i < m; i++ {
			for j := i + 1; j < m; j++ {
				c = c*12 + uint64(relPair[idx[i]][idx[j]])
			}
		}
		// the empty string is distinguishable on its own (tests against "", nil-like behaviour)
		for i := 0; i < m; i++ {
			c *= 2
			if relUniverse[idx[i]] == "" {
				c++
			}
		}
		return c
	}
	var rec func(i int)
	var gcode uint64
	rec = func(i int) {
		if i == n {
			if !admit(cur[:n]) {
				return
			}
			gcode = code(n)
		}
		if i == n+1 {
			fc := code(n + 1)
			if seenP[fc] {
				return
			}
			seenP[fc] = true
			gs, ok := seenG[gcode]
			if !ok {
				g := relStructure(cur[:n])
				gs = g.sig(n)
				seenG[gcode] = gs
				groups = append(groups, g)
			}
			probes[gs] = append(probes[gs], relStructure(cur))
			return
		}
		for k, s := range relUniverse {
			idx[i], cur[i] = k, s
			rec(i + 1)
		}
	}
	rec(0)
	return
}

// member decides whether the probe (symbol index k of cfg) lies in the region an abstract *ScanType denotes.
func memberOfScan(c *relCfg, v av, sc map[string]int64, k int) (in bool, ok bool) {
	if v.k != akPtr || v.obj == nil || len(v.obj.elems) < 2 {
		return false, false
	}
	tp := v.obj.elems[0]
	keys := v.obj.elems[1]
	var ks []av
	if keys.k == akSlice && keys.obj != nil {
		ks = keys.obj.elems[keys.lo:keys.hi]
	}
	rk := func(x av) int {
		if x.isNil {
			return 0
		}
		return c.rank[x.sym]
	}
	switch tp.i {
	case sc["EMPTY"]:
		return false, true
	case sc["FULL"]:
		return true, true
	case sc["MGET"]:
		for _, x := range ks {
			if x.k != akBytes {
				return false, false
			}
			if rk(x) == c.rank[k] {
				return true, true
			}
		}
		return false, true
	case sc["PREFIX"]:
		if len(ks) < 1 || ks[0].k != akBytes {
			return false, false
		}
		if ks[0].isNil {
			return true, true
		}
		return c.pfx[ks[0].sym][k], true
	case sc["RANGE"]:
		if len(ks) != 2 || ks[0].k != akBytes || ks[1].k != akBytes {
			return false, false
		}
		in := true
		if !ks[0].isNil && rk(ks[0]) > c.rank[k] {
			in = false
		}
		if !ks[1].isNil && c.rank[k] > rk(ks[1]) {
			in = false
		}
		return in, true
	}
	return false, false
}

func showRel(names []string, c *relCfg, nilMask []bool) string {
	var parts []string
	for i, nm := range names {
		if i < len(nilMask) && nilMask[i] {
			parts = append(parts, nm+"=nil")
		} else {
			parts = append(parts, fmt.Sprintf("%s=%q", nm, c.rep[i]))
		}
	}
	return strings.Join(parts, " ")
}

func rulePrefixAlg(p *Prog, r *Result) {
	sc, missing := p.scanConsts()
	if len(missing) > 0 {
		r.undecided("anchor: scan kind constants %v not found", missing)
		return
	}
	recv := av{k: akPtr, obj: &aobj{elems: []av{{k: akUnknown}, {k: akUnknown}, {k: akUnknown}}}, off: -1}
	type operand struct {
		kind string // PREFIX | RANGE | MGET
		syms []int
	}
	type spec struct {
		name  string
		mode  string
		names []string
		ops   [2]operand
		masks [][]bool // nil patterns over the operand symbols
	}
	none := func(n int) [][]bool { return [][]bool{make([]bool, n)} }
	rangeMasks := [][]bool{{false, false, false}, {false, true, false}, {false, false, true}}
	specs := []spec{
		{"intersectionPrefix", "and", []string{"p1", "p2"}, [2]operand{{"PREFIX", []int{0}}, {"PREFIX", []int{1}}}, none(2)},
		{"unionPrefix", "or", []string{"p1", "p2"}, [2]operand{{"PREFIX", []int{0}}, {"PREFIX", []int{1}}}, none(2)},
		{"intersectionPrefixAndRange", "and", []string{"p", "rstart", "rend"}, [2]operand{{"PREFIX", []int{0}}, {"RANGE", []int{1, 2}}}, rangeMasks},
		{"unionPrefixAndRange", "or", []string{"p", "rstart", "rend"}, [2]operand{{"PREFIX", []int{0}}, {"RANGE", []int{1, 2}}}, rangeMasks},
		{"intersectionMgetAndPrefix", "and", []string{"k1", "p"}, [2]operand{{"MGET", []int{0}}, {"PREFIX", []int{1}}}, none(2)},
		{"intersectionMgetAndPrefix", "and", []string{"k1", "k2", "p"}, [2]operand{{"MGET", []int{0, 1}}, {"PREFIX", []int{2}}}, none(3)},
		{"unionMgetAndPrefix", "or", []string{"k1", "p"}, [2]operand{{"MGET", []int{0}}, {"PREFIX", []int{1}}}, none(2)},
		{"unionMgetAndPrefix", "or", []string{"k1", "k2", "p"}, [2]operand{{"MGET", []int{0, 1}}, {"PREFIX", []int{2}}}, none(3)},
	}
	total := 0
	type acc struct {
		n                    int
		unsound, loose, errs []string
		open2                []string
		pos                  string
		mode                 string
	}
	accs := map[string]*acc{}
	var order []string
	for _, sp := range specs {
		fn := p.MethodByName("FilterOptimizer", sp.name)
		if fn == nil {
			r.undecided("anchor: (*FilterOptimizer).%s not found", sp.name)
			continue
		}
		a := accs[sp.name]
		if a == nil {
			a = &acc{pos: p.Pos(fn.Pos()), mode: sp.mode}
			accs[sp.name] = a
			order = append(order, sp.name)
		}
		n := len(sp.names)
		for _, mask := range sp.masks {
			admit := func(rep []string) bool {
				for i := range rep {
					if mask[i] && rep[i] != "" {
						return false // nil symbols: one representative
					}
				}
				for _, op := range sp.ops {
					if op.kind == "RANGE" {
						s, e := op.syms[0], op.syms[1]
						if !mask[s] && !mask[e] && rep[s] > rep[e] {
							return false // well-formed ranges
						}
					}
				}
				return true
			}
			groups, probes := relGroups(n, admit)
			for _, g := range groups {
				a.n++
				it := &ainterp{p: p, cfg: &acfg{rank: g.rank, pfx: g.pfx}}
				sym := func(i int) av {
					if mask[i] {
						return av{k: akBytes, isNil: true}
					}
					return av{k: akBytes, sym: i}
				}
				mk := func(op operand) av {
					var ks []av
					for _, s := range op.syms {
						ks = append(ks, sym(s))
					}
					return p.newScan(sc, op.kind, ks)
				}
				res := it.call(fn, []av{recv, mk(sp.ops[0]), mk(sp.ops[1])}, 0)
				desc := showRel(sp.names, g, mask)
				if it.err != "" || len(res) != 1 {
					a.errs = append(a.errs, desc+": "+it.err)
					continue
				}
				inOp := func(c *relCfg, op operand, k int) bool {
					rk := func(i int) int { return c.rank[i] }
					switch op.kind {
					case "PREFIX":
						return c.pfx[op.syms[0]][k]
					case "MGET":
						for _, s := range op.syms {
							if rk(s) == rk(k) {
								return true
							}
						}
						return false
					case "RANGE":
						s, e := op.syms[0], op.syms[1]
						if !mask[s] && rk(s) > rk(k) {
							return false
						}
						if !mask[e] && rk(k) > rk(e) {
							return false
						}
						return true
					}
					return false
				}
				anyBoth := false
				var bad, extra string
				illFormed := false
				for _, pc := range probes[g.sig(n)] {
					inL, inR := inOp(pc, sp.ops[0], n), inOp(pc, sp.ops[1], n)
					inRes, ok := memberOfScan(pc, res[0], sc, n)
					if !ok {
						illFormed = true
						break
					}
					want := inL && inR
					if sp.mode == "or" {
						want = inL || inR
					}
					if inL && inR {
						anyBoth = true
					}
					if want && !inRes && bad == "" {
						bad = fmt.Sprintf("key %q", pc.rep[n])
					}
					if inRes && extra == "" {
						extra = fmt.Sprintf("key %q", pc.rep[n])
					}
				}
				if bothNilRange(res[0], sc) || it.reversedRange(res[0], sc) {
					a.open2 = append(a.open2, desc)
				}
				kind, _, _ := it.decodeScanKind(res[0], sc)
				if illFormed {
					a.errs = append(a.errs, desc+": result "+kind+" is ill-formed")
					continue
				}
				if bad != "" {
					a.unsound = append(a.unsound, fmt.Sprintf("%s -> %s loses %s", desc, it.showScanRep(res[0], kind, g), bad))
				}
				if sp.mode == "and" && !anyBoth && extra != "" {
					a.loose = append(a.loose, fmt.Sprintf("%s -> %s reads %s although the operands share no key", desc, it.showScanRep(res[0], kind, g), extra))
				}
			}
		}
	}
	for _, nm := range order {
		a := accs[nm]
		total += a.n
		sort.Strings(a.unsound)
		sort.Strings(a.loose)
		r.note(nm+"_structures", a.n)
		r.add(len(a.open2) == 0, nm+"|closed", a.pos, fmt.Sprintf("the result is never a range open on both sides nor one with start > end; %d counter-structures %v", len(a.open2), head(a.open2, 3)))
		r.add(len(a.errs) == 0, nm+"|interpretable", a.pos, fmt.Sprintf("%d operand structures evaluated; %d outside the abstract domain %v", a.n, len(a.errs), head(a.errs, 2)))
		r.add(len(a.unsound) == 0, nm+"|sound", a.pos, fmt.Sprintf("result contains every key of the %s of the operands in all %d structures; %d counter-structures %v", map[string]string{"and": "intersection", "or": "union"}[a.mode], a.n, len(a.unsound), head(a.unsound, 3)))
		if a.mode == "and" {
			r.add(len(a.loose) == 0, nm+"|tight", a.pos, fmt.Sprintf("nothing is read when the operands share no key, in all %d structures; %d counter-structures %v", a.n, len(a.loose), head(a.loose, 3)))
		}
	}
	r.note("structures_total", total)
	r.floor("operand structures evaluated", total, 100)
}

func (it *ainterp) decodeScanKind(v av, sc map[string]int64) (string, int64, bool) {
	if v.k != akPtr || v.obj == nil || len(v.obj.elems) < 2 {
		return "?", 0, false
	}
	tp := v.obj.elems[0].i
	for nm, c := range sc {
		if c == tp {
			return nm, tp, true
		}
	}
	return fmt.Sprint(tp), tp, false
}

func (it *ainterp) showScanRep(v av, kind string, c *relCfg) string {
	if v.k != akPtr || v.obj == nil || len(v.obj.elems) < 2 {
		return kind
	}
	keys := v.obj.elems[1]
	if keys.k != akSlice || keys.obj == nil {
		return kind
	}
	var parts []string
	for _, k := range keys.obj.elems[keys.lo:keys.hi] {
		if k.isNil || k.k != akBytes {
			parts = append(parts, "nil")
		} else {
			parts = append(parts, fmt.Sprintf("%q", c.rep[k.sym]))
		}
	}
	return kind + "{" + strings.Join(parts, ",") + "}"
}

// ---------------- SCANALG ----------------
//
// The two combinators themselves: optimizeAndExpr / optimizeOrExpr, with the scan types of
// the two operands given (optimizeExpr is replaced by an abstract summary returning them).
// Every pair of scan kinds is evaluated over all operand structures, so the routing (which
// helper, which argument in which role, which fall-back) is decided together with the
// helpers it reaches.

func init() {
	register("SCANALG", "the AND / OR combinators of the scan-range optimizer, evaluated for every pair of operand scan kinds (EMPTY, key set, prefix, range with either bound open, FULL) over the complete finite domain of operand structures: the combined scan contains every key both operands (AND) / either operand (OR) contain [sound, C02], and AND reads nothing when the operands share no key [tight, C18]; pairs of two key sets use Go maps and are outside the abstract interpreter", ruleScanAlg)
}

func ruleScanAlg(p *Prog, r *Result) {
	sc, missing := p.scanConsts()
	if len(missing) > 0 {
		r.undecided("anchor: scan kind constants %v not found", missing)
		return
	}
	opt := p.MethodByName("FilterOptimizer", "optimizeExpr")
	if opt == nil {
		r.undecided("anchor: (*FilterOptimizer).optimizeExpr not found")
		return
	}
	recv := av{k: akPtr, obj: &aobj{elems: []av{{k: akUnknown}, {k: akUnknown}, {k: akUnknown}}}, off: -1}
	type shape struct {
		kind  string
		nsym  int
		masks [][]bool
	}
	shapes := []shape{
		{"EMPTY", 0, [][]bool{{}}},
		{"FULL", 0, [][]bool{{}}},
		{"MGET", 1, [][]bool{{false}}},
		{"PREFIX", 1, [][]bool{{false}}},
		{"RANGE", 2, [][]bool{{false, false}, {true, false}, {false, true}}},
	}
	total := 0
	for _, comb := range []struct{ fn, mode string }{{"optimizeAndExpr", "and"}, {"optimizeOrExpr", "or"}} {
		fn := p.MethodByName("FilterOptimizer", comb.fn)
		if fn == nil {
			r.undecided("anchor: (*FilterOptimizer).%s not found", comb.fn)
			continue
		}
		var unsound, loose, errs, open2 []string
		n := 0
		pairs := 0
		for _, ls := range shapes {
			for _, rs := range shapes {
				if ls.kind == "MGET" && rs.kind == "MGET" {
					continue // intersectionMget / unionMget build Go maps: not interpretable (stated in the rule text)
				}
				pairs++
				nsym := ls.nsym + rs.nsym
				for _, lm := range ls.masks {
					for _, rm := range rs.masks {
						mask := append(append([]bool{}, lm...), rm...)
						admit := func(rep []string) bool {
							for i := range rep {
								if mask[i] && rep[i] != "" {
									return false
								}
							}
							chk := func(off int, sh shape) bool {
								if sh.kind != "RANGE" {
									return true
								}
								s, e := off, off+1
								if !mask[s] && !mask[e] && rep[s] > rep[e] {
									return false
								}
								return true
							}
							return chk(0, ls) && chk(ls.nsym, rs)
						}
						groups, probes := relGroupsU(nsym, admit, nsym >= 4)
						for _, g := range groups {
							n++
							it := &ainterp{p: p, cfg: &acfg{rank: g.rank, pfx: g.pfx}}
							sym := func(i int) av {
								if mask[i] {
									return av{k: akBytes, isNil: true}
								}
								return av{k: akBytes, sym: i}
							}
							mk := func(off int, sh shape) av {
								var ks []av
								for i := 0; i < sh.nsym; i++ {
									ks = append(ks, sym(off+i))
								}
								if sh.nsym == 0 {
									v := p.newScan(sc, sh.kind, nil)
									v.obj.elems[1] = av{k: akSlice, isNil: true}
									return v
								}
								return p.newScan(sc, sh.kind, ks)
							}
							lv, rv := mk(0, ls), mk(ls.nsym, rs)
							calls := 0
							it.stubs = map[*ssa.Function]func([]av) av{opt: func([]av) av {
								calls++
								if calls == 1 {
									return lv
								}
								return rv
							}}
							e := av{k: akPtr, obj: &aobj{elems: []av{{k: akUnknown}, {k: akUnknown}, {k: akUnknown}, {k: akUnknown}, {k: akUnknown}, {k: akUnknown}}}, off: -1}
							res := it.call(fn, []av{recv, e}, 0)
							names := []string{}
							for i := 0; i < ls.nsym; i++ {
								names = append(names, fmt.Sprintf("L%d", i))
							}
							for i := 0; i < rs.nsym; i++ {
								names = append(names, fmt.Sprintf("R%d", i))
							}
							desc := fmt.Sprintf("%s x %s %s", ls.kind, rs.kind, showRel(names, g, mask))
							if it.err != "" || len(res) != 1 || calls != 2 {
								errs = append(errs, desc+": "+it.err)
								continue
							}
							inOp := func(c *relCfg, off int, sh shape, k int) bool {
								switch sh.kind {
								case "EMPTY":
									return false
								case "FULL":
									return true
								case "MGET":
									return c.rank[off] == c.rank[k]
								case "PREFIX":
									return c.pfx[off][k]
								case "RANGE":
									s, e := off, off+1
									if !mask[s] && c.rank[s] > c.rank[k] {
										return false
									}
									if !mask[e] && c.rank[k] > c.rank[e] {
										return false
									}
									return true
								}
								return false
							}
							anyBoth := false
							bad, extra := "", ""
							ill := false
							for _, pc := range probes[g.sig(nsym)] {
								inL, inR := inOp(pc, 0, ls, nsym), inOp(pc, ls.nsym, rs, nsym)
								inRes, ok := memberOfScan(pc, res[0], sc, nsym)
								if !ok {
									ill = true
									break
								}
								want := inL && inR
								if comb.mode == "or" {
									want = inL || inR
								}
								if inL && inR {
									anyBoth = true
								}
								if want && !inRes && bad == "" {
									bad = fmt.Sprintf("key %q", pc.rep[nsym])
								}
								if inRes && extra == "" {
									extra = fmt.Sprintf("key %q", pc.rep[nsym])
								}
							}
							if bothNilRange(res[0], sc) || it.reversedRange(res[0], sc) {
								open2 = append(open2, desc)
							}
							kind, _, _ := it.decodeScanKind(res[0], sc)
							if ill {
								errs = append(errs, desc+": result "+kind+" is ill-formed")
								continue
							}
							if bad != "" {
								unsound = append(unsound, fmt.Sprintf("%s -> %s loses %s", desc, it.showScanRep(res[0], kind, g), bad))
							}
							if comb.mode == "and" && !anyBoth && extra != "" {
								loose = append(loose, fmt.Sprintf("%s -> %s reads %s although the operands share no key", desc, it.showScanRep(res[0], kind, g), extra))
							}
						}
					}
				}
			}
		}
		total += n
		sort.Strings(unsound)
		sort.Strings(loose)
		r.note(comb.fn+"_structures", n)
		r.note(comb.fn+"_kind_pairs", pairs)
		r.add(len(open2) == 0, comb.fn+"|closed", p.Pos(fn.Pos()), fmt.Sprintf("the combined scan is never a range open on both sides; %d counter-structures %v", len(open2), head(open2, 3)))
		r.add(len(errs) == 0, comb.fn+"|interpretable", p.Pos(fn.Pos()), fmt.Sprintf("%d kind pairs, %d operand structures evaluated; %d outside the abstract domain %v", pairs, n, len(errs), head(errs, 2)))
		r.add(len(unsound) == 0, comb.fn+"|sound", p.Pos(fn.Pos()), fmt.Sprintf("the combined scan contains every key of the %s of the operands in all %d structures; %d counter-structures %v", map[string]string{"and": "intersection", "or": "union"}[comb.mode], n, len(unsound), head(unsound, 3)))
		if comb.mode == "and" {
			r.add(len(loose) == 0, comb.fn+"|tight", p.Pos(fn.Pos()), fmt.Sprintf("nothing is read when the operands share no key, in all %d structures; %d counter-structures %v", n, len(loose), head(loose, 3)))
		}
	}
	r.floor("operand structures evaluated", total, 300)
}

// relGroupsU: relGroups over the full universe, or over the short one (strings up to length 2,
// enough for every weak order of five strings) when small is set.
func relGroupsU(n int, admit func(rep []string) bool, small bool) ([]*relCfg, map[string][]*relCfg) {
	if !small {
		return relGroups(n, admit)
	}
	saveU, saveP := relUniverse, relPair
	var u []string
	for _, s := range saveU {
		if len(s) <= 2 {
			u = append(u, s)
		}
	}
	relUniverse = u
	relPair = buildRelPair(u)
	defer func() { relUniverse, relPair = saveU, saveP }()
	return relGroups(n, admit)
}

// bothNilRange: the abstract *ScanType is a RANGE whose two bounds are nil. No function of the
// algebra may produce it: the domains of RANGEALG / PREFIXALG / SCANALG leave it out as an
// operand, which is only justified if it never arises (closed domain).
// reversedRange: a RANGE whose two bounds are both present with start > end (the union and intersection handlers
// assume start <= end for their operands; the evaluators of BETWEEN fail on such boundaries).
func (it *ainterp) reversedRange(v av, sc map[string]int64) bool {
	if v.k != akPtr || v.obj == nil || len(v.obj.elems) < 2 || v.obj.elems[0].i != sc["RANGE"] {
		return false
	}
	keys := v.obj.elems[1]
	if keys.k != akSlice || keys.obj == nil || keys.hi-keys.lo != 2 {
		return false
	}
	ks := keys.obj.elems[keys.lo:keys.hi]
	if ks[0].isNil || ks[1].isNil || ks[0].k != akBytes || ks[1].k != akBytes {
		return false
	}
	rk := func(a av) int {
		if a.emptyStr {
			return 0
		}
		if a.sym >= 0 && a.sym < len(it.cfg.rank) {
			return it.cfg.rank[a.sym]
		}
		return 0
	}
	return rk(ks[0]) > rk(ks[1])
}

func bothNilRange(v av, sc map[string]int64) bool {
	if v.k != akPtr || v.obj == nil || len(v.obj.elems) < 2 || v.obj.elems[0].i != sc["RANGE"] {
		return false
	}
	keys := v.obj.elems[1]
	if keys.k != akSlice || keys.obj == nil || keys.hi-keys.lo != 2 {
		return false
	}
	ks := keys.obj.elems[keys.lo:keys.hi]
	return ks[0].isNil && ks[1].isNil
}

// ---------------- ATOMALG ----------------
//
// The atom layer of the scan-range optimizer: optimizeExpr applied to a single comparison
// node. The operands are abstract AST nodes (`key`, `value`, a string literal with a symbolic
// text, some other expression); the handlers inspect them only through type switches, the
// Field constant and the literal's bytes, so the result is a function of (operator, operand
// shapes, order/prefix structure of the literals) - a finite domain, enumerated completely,
// with the literal on either side of the operator.

func init() {
	register("ATOMALG", "atom layer of the scan-range optimizer, decided for every operator x operand shape (key, value, string literal, other expression; literal on either side; IN lists and BETWEEN pairs of literals and non-literals) over all order/prefix structures of the literals plus a probe key: the region contains every key on which the atom is true under the executor's semantics, and everything when the atom's truth does not depend on the key alone [sound, C02]; for key-pinning atoms the region contains nothing outside the pinned set (equality and IN: exactly the listed keys as point reads; unsatisfiable: no read) [tight, C18]; no atom yields a range open on both sides [closed]", ruleAtomAlg)
}

func (p *Prog) mkNode(tname string, set map[string]av) av {
	n := p.Named(tname)
	o := &aobj{name: tname}
	if n != nil {
		if st, ok := n.Underlying().(*types.Struct); ok {
			for i := 0; i < st.NumFields(); i++ {
				f := st.Field(i)
				v, ok := set[f.Name()]
				if !ok {
					v = zeroOf(f.Type())
					if _, isI := f.Type().Underlying().(*types.Interface); isI {
						v = av{k: akPtr, isNil: true}
					}
					if b, isB := f.Type().Underlying().(*types.Basic); isB && b.Info()&types.IsString != 0 {
						v = av{k: akBytes, emptyStr: true}
					}
				}
				o.elems = append(o.elems, v)
			}
		}
	}
	return av{k: akPtr, obj: o, off: -1}
}

func ruleAtomAlg(p *Prog, r *Result) {
	sc, missing := p.scanConsts()
	if len(missing) > 0 {
		r.undecided("anchor: scan kind constants %v not found", missing)
		return
	}
	fn := p.MethodByName("FilterOptimizer", "optimizeExpr")
	if fn == nil {
		r.undecided("anchor: (*FilterOptimizer).optimizeExpr not found")
		return
	}
	ops := p.typedConsts("Operator")
	keyKW, ok1 := p.constOf("KeyKW")
	valKW, ok2 := p.constOf("ValueKW")
	if !ok1 || !ok2 || len(ops) < 15 {
		r.undecided("anchor: KeyKW/ValueKW/Operator constants not found")
		return
	}
	recv := av{k: akPtr, obj: &aobj{elems: []av{{k: akUnknown}, {k: akUnknown}, {k: akUnknown}}}, off: -1}
	// operand shapes: K key, V value, S literal (next symbol), X other expression; L:.. a list
	type shapeT struct {
		desc        string
		left, right string
	}
	var shapes []shapeT
	for _, l := range []string{"K", "V", "S", "X"} {
		for _, rr := range []string{"K", "V", "S", "X", "L:S", "L:SS", "L:SX", "L:XS", "L:SV"} {
			shapes = append(shapes, shapeT{l + " op " + rr, l, rr})
		}
	}
	var opVals []int64
	for v := range ops {
		opVals = append(opVals, v)
	}
	sort.Slice(opVals, func(i, j int) bool { return opVals[i] < opVals[j] })
	var unsound, loose, errs, open2 []string
	strictLoose := map[string][]string{}
	var mgetLoose []string
	n := 0
	for _, ov := range opVals {
		on := ops[ov]
		switch on {
		case "And", "Or", "KWAnd", "KWOr", "Not":
			continue // combinators: SCANALG
		}
		for _, sh := range shapes {
			nsym := strings.Count(sh.left, "S") + strings.Count(sh.right, "S")
			groups, probes := relGroupsU(nsym, func([]string) bool { return true }, false)
			for _, g := range groups {
				n++
				it := &ainterp{p: p, cfg: &acfg{rank: g.rank, pfx: g.pfx}}
				next := 0
				var lits []int
				mk := func(code byte) av {
					switch code {
					case 'K':
						return p.mkNode("FieldExpr", map[string]av{"Field": {k: akInt, i: keyKW}})
					case 'V':
						return p.mkNode("FieldExpr", map[string]av{"Field": {k: akInt, i: valKW}})
					case 'S':
						i := next
						next++
						lits = append(lits, i)
						return p.mkNode("StringExpr", map[string]av{"Data": {k: akBytes, sym: i}})
					}
					return p.mkNode("FunctionCallExpr", nil)
				}
				left := mk(sh.left[0])
				var right av
				listCodes := ""
				if strings.HasPrefix(sh.right, "L:") {
					listCodes = sh.right[2:]
					var elems []av
					for i := 0; i < len(listCodes); i++ {
						elems = append(elems, mk(listCodes[i]))
					}
					right = p.mkNode("ListExpr", map[string]av{"List": {k: akSlice, obj: &aobj{elems: elems}, lo: 0, hi: len(elems)}})
				} else {
					right = mk(sh.right[0])
				}
				node := p.mkNode("BinaryOpExpr", map[string]av{"Op": {k: akInt, i: ov}, "Left": left, "Right": right})
				res := it.call(fn, []av{recv, node}, 0)
				names := make([]string, nsym)
				for i := range names {
					names[i] = fmt.Sprintf("s%d", i+1)
				}
				desc := fmt.Sprintf("%s [%s] %s", on, sh.desc, showRel(names, g, make([]bool, nsym)))
				if it.err != "" || len(res) != 1 {
					errs = append(errs, desc+": "+it.err)
					continue
				}
				if bothNilRange(res[0], sc) || it.reversedRange(res[0], sc) {
					open2 = append(open2, desc)
				}
				allLits := listCodes != "" && strings.Trim(listCodes, "S") == ""
				// semantics of the atom for a probe key: known (a function of the key alone), its truth, and
				// whether the key lies in the region the atom pins (boundary included)
				sem := func(c *relCfg, k int) (known, truth, pinned bool) {
					rk := func(i int) int { return c.rank[i] }
					cmp := func(a, b int) (bool, bool) {
						switch on {
						case "Eq":
							return a == b, a == b
						case "NotEq":
							return a != b, true
						case "Gt":
							return a > b, a >= b
						case "Gte":
							return a >= b, a >= b
						case "Lt":
							return a < b, a <= b
						case "Lte":
							return a <= b, a <= b
						}
						return false, false
					}
					switch on {
					case "Eq", "NotEq", "Gt", "Gte", "Lt", "Lte":
						if sh.left == "K" && sh.right == "S" {
							t, pn := cmp(rk(k), rk(lits[0]))
							return true, t, pn
						}
						if sh.left == "S" && sh.right == "K" {
							t, pn := cmp(rk(lits[0]), rk(k))
							return true, t, pn
						}
					case "PrefixMatch":
						if sh.left == "K" && sh.right == "S" {
							t := c.pfx[lits[0]][k]
							return true, t, t
						}
						if sh.left == "S" && sh.right == "K" {
							// 'abc' ^= key: true when the key is a prefix of the literal; not a key-pinning form
							// (C18 lists literal prefixes of the key), nothing is demanded beyond soundness
							return true, c.pfx[k][lits[0]], true
						}
					case "In":
						if sh.left == "K" && allLits {
							t := false
							for _, li := range lits {
								if rk(li) == rk(k) {
									t = true
								}
							}
							return true, t, t
						}
					case "Between":
						if sh.left == "K" && listCodes == "SS" {
							t := rk(lits[0]) <= rk(k) && rk(k) <= rk(lits[1])
							return true, t, t
						}
					}
					return false, false, false
				}
				bad, extra, falseIn := "", "", ""
				ill := false
				for _, pc := range probes[g.sig(nsym)] {
					inRes, ok := memberOfScan(pc, res[0], sc, nsym)
					if !ok {
						ill = true
						break
					}
					known, truth, pinned := sem(pc, nsym)
					if (!known || truth) && !inRes && bad == "" {
						bad = fmt.Sprintf("key %q", pc.rep[nsym])
					}
					if known && !pinned && inRes && extra == "" {
						extra = fmt.Sprintf("key %q", pc.rep[nsym])
					}
					if known && !truth && inRes && falseIn == "" {
						falseIn = fmt.Sprintf("key %q", pc.rep[nsym])
					}
				}
				kind, _, _ := it.decodeScanKind(res[0], sc)
				if ill {
					errs = append(errs, desc+": result "+kind+" is ill-formed")
					continue
				}
				if bad != "" {
					unsound = append(unsound, fmt.Sprintf("%s -> %s loses %s", desc, it.showScanRep(res[0], kind, g), bad))
				}
				// strict comparisons: the boundary key itself is outside the region
				if (on == "Gt" || on == "Lt") && ((sh.left == "K" && sh.right == "S") || (sh.left == "S" && sh.right == "K")) {
					for _, pc := range probes[g.sig(nsym)] {
						inRes, ok := memberOfScan(pc, res[0], sc, nsym)
						if ok && inRes && pc.rank[nsym] == pc.rank[lits[0]] {
							// the empty literal is its own case: `key < ''` is unsatisfiable on its face (planned
							// EMPTY), which the inclusive planning of the other literals does not touch
							onKey := on
							if pc.rep[lits[0]] == "" {
								onKey = on + "|empty-literal|" + sh.left + " op " + sh.right
							}
							strictLoose[onKey] = append(strictLoose[onKey], fmt.Sprintf("%s -> %s reads the boundary key %q", desc, it.showScanRep(res[0], kind, g), pc.rep[nsym]))
							break
						}
					}
				}
				if falseIn != "" && kind == "MGET" {
					mgetLoose = append(mgetLoose, fmt.Sprintf("%s -> %s holds %s, on which the atom is false", desc, it.showScanRep(res[0], kind, g), falseIn))
				}
				if extra != "" && on != "NotEq" {
					loose = append(loose, fmt.Sprintf("%s -> %s reads %s outside the pinned region", desc, it.showScanRep(res[0], kind, g), extra))
				}
				if (on == "Eq" && ((sh.left == "K" && sh.right == "S") || (sh.left == "S" && sh.right == "K"))) || (on == "In" && sh.left == "K" && allLits) {
					if kind != "MGET" {
						loose = append(loose, fmt.Sprintf("%s -> %s: equality / IN over literals must use point reads", desc, kind))
					}
				}
			}
		}
	}
	sort.Strings(unsound)
	sort.Strings(loose)
	r.note("atom_configurations", n)
	r.add(len(errs) == 0, "optimizeExpr|interpretable", p.Pos(fn.Pos()), fmt.Sprintf("%d atom configurations evaluated; %d outside the abstract domain %v", n, len(errs), head(errs, 3)))
	r.add(len(unsound) == 0, "optimizeExpr|sound", p.Pos(fn.Pos()), fmt.Sprintf("the region of an atom contains every key on which the atom can be true, in all %d configurations; %d counter-configurations %v", n, len(unsound), head(unsound, 4)))
	r.add(len(loose) == 0, "optimizeExpr|tight", p.Pos(fn.Pos()), fmt.Sprintf("key-pinning atoms read nothing outside the pinned region and use point reads for equality and IN, in all %d configurations; %d counter-configurations %v", n, len(loose), head(loose, 4)))
	for _, on := range []string{"Gt", "Lt", "Gt|empty-literal|K op S", "Gt|empty-literal|S op K", "Lt|empty-literal|K op S", "Lt|empty-literal|S op K"} {
		sl := strictLoose[on]
		sort.Strings(sl)
		r.add(len(sl) == 0, "optimizeExpr|strict|"+on, p.Pos(fn.Pos()), fmt.Sprintf("the region of a strict comparison (%s) leaves the boundary key out; %d counter-configurations %v", on, len(sl), head(sl, 2)))
	}
	sort.Strings(mgetLoose)
	r.add(len(mgetLoose) == 0, "optimizeExpr|mget-exact", p.Pos(fn.Pos()), fmt.Sprintf("a point-read key set holds only keys on which the atom can be true (a DELETE whose clause is planned as point reads removes the set without evaluating the clause); %d counter-configurations %v", len(mgetLoose), head(mgetLoose, 3)))
	r.add(len(open2) == 0, "optimizeExpr|closed", p.Pos(fn.Pos()), fmt.Sprintf("no atom yields a range open on both sides or with start > end (the algebra's domain leaves them out); %d counter-configurations %v", len(open2), head(open2, 3)))
	r.floor("atom configurations evaluated", n, 500)
}
