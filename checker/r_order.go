package main

import (
	"fmt"
	"go/token"
	"go/types"

	"golang.org/x/tools/go/ssa"
)

func init() {
	register("CMPDIR", "ORDER BY comparators: a scalar comparator returns 0 on l == r, -1 exactly when l < r (l > r when reversed) and decides on its own typed operands (integers are compared as int64, not through float64); the byte comparator calls bytes.Compare(left, right) and negates it when reversed; Less reports true exactly on a negative comparison of (receiver, argument); the reverse flag is Order == DESC; the heap's Less(i, j) compares element i with element j", ruleCmpDir)
	register("ORDERELIDE", "the plan builder returns the child plan instead of a sort node only under: no aggregate, exactly one order field, that field is the key keyword, direction ASC", ruleOrderElide)
	register("ORDERDEFAULT", "every order field appended by the ORDER BY parser has its direction assigned in the same loop iteration (default ASC per field, never inherited from the previous field)", ruleOrderDefault)
	register("DRAINALL", "the sort node pushes every fetched child row exactly once (the push dominates every way back to the fetch loop's header, together with total++) and pops only while pos < total, advancing pos", ruleDrainAll)
}

func paramIndexOf(fn *ssa.Function, v ssa.Value) int {
	for i, pa := range fn.Params {
		if ssa.Value(pa) == v {
			return i
		}
	}
	return -1
}

func ruleCmpDir(p *Prog, r *Result) {
	rt := p.Named("orderColumnsRow")
	if rt == nil {
		r.undecided("anchor: orderColumnsRow not found")
		return
	}
	nScalar := 0
	for _, fn := range p.methodsOf(rt) {
		sig := fn.Signature
		// scalar comparators: (T, T, bool) int with basic T
		if sig.Params().Len() == 3 && sig.Results().Len() == 1 {
			t0, ok0 := sig.Params().At(0).Type().Underlying().(*types.Basic)
			t1, ok1 := sig.Params().At(1).Type().Underlying().(*types.Basic)
			tb, okb := sig.Params().At(2).Type().Underlying().(*types.Basic)
			if ok0 && ok1 && okb && t0.Kind() == t1.Kind() && tb.Kind() == types.Bool && (t0.Info()&types.IsNumeric != 0) {
				nScalar++
				lv, rv, rev := ssa.Value(fn.Params[1]), ssa.Value(fn.Params[2]), ssa.Value(fn.Params[3])
				key := p.FName(fn)
				// decided by cases: for each relation of two ordinary operands (l < r, l == r, l > r) and each direction,
				// the comparator is evaluated abstractly - comparisons of the two operands answered by the case, tests
				// for NaN (x != x, math.IsNaN) answered `no`, the direction flag by the case - and every return that
				// can be reached must be the constant the order asks for: -1 / 0 / +1 ascending, +1 / 0 / -1 descending.
				// (What it answers for NaN is its choice; CMPMIXED asks that NaN has a place.)
				bad := ""
				for _, rel := range []string{"<", "=", ">"} {
					for _, reversed := range []bool{false, true} {
						want := map[string]int64{"<": -1, "=": 0, ">": 1}[rel]
						if reversed {
							want = -want
						}
						as := &assumption{p: p}
						as.leaf = func(f *ssa.Function, v ssa.Value, bound map[*ssa.Parameter]string) (aval, bool) {
							if f != fn {
								return aval{}, false
							}
							tf := func(t bool) (aval, bool) {
								if t {
									return aval{kind: 2, b: abTrue}, true
								}
								return aval{kind: 2, b: abFalse}, true
							}
							if v == rev {
								return tf(reversed)
							}
							if c, ok := v.(*ssa.Call); ok && p.calleeName(&c.Call) == "math.IsNaN" {
								return tf(false)
							}
							bo, ok := v.(*ssa.BinOp)
							if !ok {
								return aval{}, false
							}
							x, y, op := bo.X, bo.Y, bo.Op
							if x == y && (x == lv || x == rv) {
								switch op {
								case token.NEQ, token.LSS, token.GTR:
									return tf(false)
								case token.EQL, token.LEQ, token.GEQ:
									return tf(true)
								}
							}
							if x == rv && y == lv {
								x, y, op = y, x, swapOp(op)
							}
							if x != lv || y != rv {
								return aval{}, false
							}
							switch op {
							case token.LSS:
								return tf(rel == "<")
							case token.LEQ:
								return tf(rel != ">")
							case token.GTR:
								return tf(rel == ">")
							case token.GEQ:
								return tf(rel != "<")
							case token.EQL:
								return tf(rel == "=")
							case token.NEQ:
								return tf(rel != "=")
							}
							return aval{}, false
						}
						as.typeTest = func(*ssa.Function, *ssa.TypeAssert, map[*ssa.Parameter]string) (abool, bool) { return abBoth, false }
						as.bind = func(*ssa.Function, ssa.Value, map[*ssa.Parameter]string) string { return "" }
						res := as.run(fn, map[*ssa.Parameter]string{})
						n := 0
						for _, ret := range res.rets {
							if len(ret.Results) != 1 {
								continue
							}
							n++
							got, isC := constInt(retVal(ret, 0))
							if !isC {
								if ev := res.ev(retVal(ret, 0)); ev.kind == 1 {
									got, isC = ev.i, true
								}
							}
							if !isC {
								bad = fmt.Sprintf("for l %s r, reverse=%v the result at %s is not decided by this function's own comparison of its operands (e.g. delegated after a lossy conversion)", rel, reversed, p.InstrPos(ret))
							} else if got != want {
								bad = fmt.Sprintf("for l %s r, reverse=%v the comparator can return %d at %s (must be %d)", rel, reversed, got, p.InstrPos(ret), want)
							}
						}
						if n == 0 {
							bad = fmt.Sprintf("for l %s r, reverse=%v no return is reachable", rel, reversed)
						}
					}
				}
				r.add(bad == "", key+"|direction", p.Pos(fn.Pos()), firstNonEmpty(bad, "comparator direction correct"))
				continue
			}
		}
		// Less(r *orderColumnsRow) bool
		if fn.Name() == "Less" && sig.Params().Len() == 1 && sig.Results().Len() == 1 {
			key := p.FName(fn)
			bad := ""
			nTrue := 0
			var cmpCall *ssa.Call
			allInstrs(fn, func(in ssa.Instruction) {
				if c, ok := in.(*ssa.Call); ok {
					if g := c.Call.StaticCallee(); g != nil && g.Signature.Recv() != nil && namedOf(g.Signature.Recv().Type()) == rt && g.Signature.Results().Len() == 1 && len(c.Call.Args) == 5 {
						cmpCall = c
					}
				}
			})
			if cmpCall == nil {
				r.hit(key, p.Pos(fn.Pos()), "Less does not call the per-type comparator")
				continue
			}
			for _, b := range fn.Blocks {
				ret := retOf(b)
				if ret == nil {
					continue
				}
				bv, isB := constBool(retVal(ret, 0))
				if !isB {
					bad = "Less returns a non-constant"
					continue
				}
				if bv {
					nTrue++
					okNeg := false
					for _, a := range dominatingAtoms(b) {
						if a.X == ssa.Value(cmpCall) {
							if c, ok := constInt(a.Y); ok && c == 0 && a.Op == token.LSS {
								okNeg = true
							}
						}
					}
					if !okNeg {
						bad = "Less returns true on a path where the comparison is not negative"
					}
				}
			}
			if nTrue == 0 {
				bad = "Less never returns true"
			}
			// ties move on to the next order field: inside the loop over the fields, `false` is returned only
			// where the comparison is positive (a return under compare >= 0 stops at the first field)
			for _, L := range naturalLoops(fn) {
				if !L.Body[cmpCall.Block()] {
					continue
				}
				for _, b := range fn.Blocks {
					ret := retOf(b)
					if ret == nil {
						continue
					}
					bv, isB := constBool(retVal(ret, 0))
					if !isB || bv {
						continue
					}
					// a `return false` reached from inside the loop other than through the loop's normal exit
					fromLoop := false
					for _, pr := range b.Preds {
						if L.Body[pr] && pr != L.Header {
							fromLoop = true
						}
					}
					if !fromLoop {
						continue
					}
					strict := false
					for _, a := range dominatingAtoms(b) {
						if a.X == ssa.Value(cmpCall) {
							if c, ok := constInt(a.Y); ok && ((a.Op == token.GTR && c == 0) || (a.Op == token.GEQ && c == 1) || (a.Op == token.NEQ && c == 0)) {
								strict = true
							}
						}
					}
					if !strict {
						bad = "Less answers `false` on a tie of one order field instead of moving on to the next field (only the first ORDER BY field would count)"
					}
				}
			}
			// operand roles: arg2 from the receiver's columns, arg3 from the parameter's columns
			recv, other := ssa.Value(fn.Params[0]), ssa.Value(fn.Params[1])
			lFrom := derivesFrom(cmpCall.Call.Args[2], func(v ssa.Value) bool { return v == recv }) && !derivesFrom(cmpCall.Call.Args[2], func(v ssa.Value) bool { return v == other })
			rFrom := derivesFrom(cmpCall.Call.Args[3], func(v ssa.Value) bool { return v == other }) && !derivesFrom(cmpCall.Call.Args[3], func(v ssa.Value) bool { return v == recv })
			if !lFrom || !rFrom {
				bad = "the comparator's left operand must come from the receiver row and its right operand from the argument row"
			}
			// reverse flag = (Order == DESC)
			desc, okD := p.constOf("DESC")
			revOK := false
			if bo, ok := cmpCall.Call.Args[4].(*ssa.BinOp); ok && bo.Op == token.EQL && okD {
				if c, ok := constInt(bo.Y); ok && c == desc {
					if _, f, _, isF := loadedField(bo.X); isF && f == "Order" {
						revOK = true
					}
				}
			}
			if !revOK {
				bad = "the reverse flag is not (field.Order == DESC)"
			}
			// same column index for both sides
			var li, ri ssa.Value
			backward(cmpCall.Call.Args[2], func(v ssa.Value) bool {
				if ia, ok := v.(*ssa.IndexAddr); ok && li == nil {
					li = ia.Index
				}
				return true
			})
			backward(cmpCall.Call.Args[3], func(v ssa.Value) bool {
				if ia, ok := v.(*ssa.IndexAddr); ok && ri == nil {
					ri = ia.Index
				}
				return true
			})
			if li == nil || li != ri {
				bad = "the two rows are compared on different columns"
			}
			r.add(bad == "", key, p.Pos(fn.Pos()), firstNonEmpty(bad, "Less is true exactly on a negative comparison of (receiver, argument) on the same column"))
		}
		// byte comparator: (Column, Column, bool) int calling bytes.Compare
		if sig.Params().Len() == 3 && sig.Results().Len() == 1 {
			var calls []*ssa.Call
			allInstrs(fn, func(in ssa.Instruction) {
				if c, ok := in.(*ssa.Call); ok && p.calleeName(&c.Call) == "bytes.Compare" {
					calls = append(calls, c)
				}
			})
			if len(calls) == 0 || len(fn.Params) < 4 {
				continue
			}
			if _, isI := fn.Params[1].Type().Underlying().(*types.Interface); !isI {
				continue
			}
			lv, rv, rev := ssa.Value(fn.Params[1]), ssa.Value(fn.Params[2]), ssa.Value(fn.Params[3])
			key := p.FName(fn) + "|bytes"
			bad := ""
			for _, c := range calls {
				a0l := derivesFrom(c.Call.Args[0], func(v ssa.Value) bool { return v == lv })
				a1r := derivesFrom(c.Call.Args[1], func(v ssa.Value) bool { return v == rv })
				if !a0l || !a1r {
					bad = "bytes.Compare is not called as Compare(left, right)"
				}
			}
			for _, b := range fn.Blocks {
				ret := retOf(b)
				if ret == nil {
					continue
				}
				v := retVal(ret, 0)
				if _, isC := constInt(v); isC {
					continue
				}
				reversed, known := false, false
				for _, a := range dominatingAtoms(b) {
					if a.X == rev {
						if bv, isB := constBool(a.Y); isB {
							known, reversed = true, (a.Op == token.EQL) == bv
						}
					}
				}
				neg := false
				if bo, ok := v.(*ssa.BinOp); ok && bo.Op == token.SUB {
					if c, ok := constInt(bo.X); ok && c == 0 {
						neg = true
						v = bo.Y
					}
				}
				if u, ok := v.(*ssa.UnOp); ok && u.Op == token.SUB {
					neg = true
					v = u.X
				}
				if _, isCall := v.(*ssa.Call); !isCall {
					bad = "result is not the byte comparison"
					continue
				}
				if !known && neg {
					bad = "negated comparison returned regardless of the reverse flag"
				}
				if known && neg != reversed {
					bad = fmt.Sprintf("comparison negated=%v under reverse=%v", neg, reversed)
				}
			}
			r.add(bad == "", key, p.Pos(fn.Pos()), firstNonEmpty(bad, "byte comparator direction correct"))
		}
	}
	r.floor("scalar comparators", nScalar, 2)
	// heap Less(i, j)
	if ht := p.Named("orderColumnsRowHeap"); ht != nil {
		if fn := p.Method(ht, "Less"); fn != nil && len(fn.Params) == 3 {
			okv := false
			allInstrs(fn, func(in ssa.Instruction) {
				c, ok := in.(*ssa.Call)
				if !ok || c.Call.StaticCallee() == nil || c.Call.StaticCallee().Name() != "Less" {
					return
				}
				var ri, ai ssa.Value
				backward(c.Call.Args[0], func(v ssa.Value) bool {
					if ia, ok := v.(*ssa.IndexAddr); ok && ri == nil {
						ri = ia.Index
					}
					return true
				})
				backward(c.Call.Args[1], func(v ssa.Value) bool {
					if ia, ok := v.(*ssa.IndexAddr); ok && ai == nil {
						ai = ia.Index
					}
					return true
				})
				if ri == ssa.Value(fn.Params[1]) && ai == ssa.Value(fn.Params[2]) {
					for _, b := range fn.Blocks {
						if ret := retOf(b); ret != nil && retVal(ret, 0) == ssa.Value(c) {
							okv = true
						}
					}
				}
			})
			r.add(okv, "(orderColumnsRowHeap).Less", p.Pos(fn.Pos()), "heap.Less(i, j) = h[i].Less(h[j])")
		} else {
			r.undecided("anchor: (orderColumnsRowHeap).Less not found")
		}
	}
}

// ---------------- ORDERELIDE ----------------

func ruleOrderElide(p *Prog, r *Result) {
	asc, ok1 := p.constOf("ASC")
	keyKW, ok2 := p.constOf("KeyKW")
	if !ok1 || !ok2 {
		r.undecided("anchor: ASC / KeyKW constants not found")
		return
	}
	n := 0
	for _, fn := range p.Funcs {
		// functions that allocate a FinalOrderPlan
		allocs := false
		allInstrs(fn, func(in ssa.Instruction) {
			if al, ok := in.(*ssa.Alloc); ok && typeName(al.Type()) == "FinalOrderPlan" {
				allocs = true
			}
		})
		if !allocs {
			continue
		}
		for _, b := range fn.Blocks {
			ret := retOf(b)
			if ret == nil || len(ret.Results) != 1 {
				continue
			}
			pi := paramIndexOf(fn, stripConv(retVal(ret, 0)))
			if pi < 0 {
				continue
			}
			n++
			key := p.FName(fn) + "|elide"
			var noAggr, one, isKey, isAsc bool
			for _, a := range dominatingAtoms(b) {
				if pa, ok := a.X.(*ssa.Parameter); ok {
					if bt, isB := pa.Type().Underlying().(*types.Basic); isB && bt.Kind() == types.Bool {
						if bv, isC := constBool(a.Y); isC && ((a.Op == token.EQL) == bv) == false {
							noAggr = true
						}
					}
				}
				if lv := lenOf(a.X); lv != nil && a.Op == token.EQL {
					if c, ok := constInt(a.Y); ok && c == 1 && p.derivesFromField(lv, "OrderStmt", "Orders", traceOpts{}) {
						one = true
					}
				}
				if a.Op == token.EQL {
					if c, ok := constInt(a.Y); ok {
						if _, f, _, isF := loadedField(a.X); isF {
							if f == "Field" && c == keyKW {
								isKey = true
							}
							if f == "Order" && c == asc {
								isAsc = true
							}
						}
					}
				}
			}
			bad := ""
			switch {
			case !noAggr:
				bad = "sort elided although the result may be aggregated"
			case !one:
				bad = "sort elided although there may be several order fields"
			case !isKey:
				bad = "sort elided for an order field that is not the key keyword"
			case !isAsc:
				bad = "sort elided for a direction other than ASC"
			}
			r.add(bad == "", key, p.InstrPos(ret), firstNonEmpty(bad, "sort elided only for a lone `order by key asc`"))
		}
	}
	r.floor("order-node elisions", n, 1)
}

// ---------------- ORDERDEFAULT ----------------

func ruleOrderDefault(p *Prog, r *Result) {
	n := 0
	for _, fn := range p.Funcs {
		loops := naturalLoops(fn)
		allInstrs(fn, func(in ssa.Instruction) {
			c, ok := in.(*ssa.Call)
			if !ok {
				return
			}
			b, ok := c.Call.Value.(*ssa.Builtin)
			if !ok || b.Name() != "append" {
				return
			}
			sl, ok := c.Type().Underlying().(*types.Slice)
			if !ok || typeName(sl.Elem()) != "OrderField" {
				return
			}
			n++
			key := p.FName(fn) + "|append"
			var L *Loop
			for _, l := range loops {
				if l.Body[c.Block()] && (L == nil || len(l.Body) < len(L.Body)) {
					L = l
				}
			}
			if L == nil {
				r.ok(key, p.InstrPos(c), "single order field")
				return
			}
			okv := false
			carried := ""
			for _, e := range appendedElems(c) {
				ld, ok := e.(*ssa.UnOp)
				if !ok {
					continue
				}
				al, ok := ld.X.(*ssa.Alloc)
				if !ok {
					continue
				}
				// a store to al.Order (or to the whole struct) inside the loop, dominating the append
				for _, ref := range *al.Referrers() {
					switch x := ref.(type) {
					case *ssa.Store:
						if x.Addr == ssa.Value(al) && L.Body[x.Block()] && instrDominates(x, c) {
							okv = true
						}
					case *ssa.FieldAddr:
						if _, f, _, _ := fieldOfAddr(x); f == "Order" {
							for _, r2 := range *x.Referrers() {
								if st, ok := r2.(*ssa.Store); ok && L.Body[st.Block()] && instrDominates(st, c) {
									okv = true
								}
								if st, ok := r2.(*ssa.Store); ok && L.Body[st.Block()] && loopCarried(st.Val, L) {
									carried = p.InstrPos(st)
								}
							}
						}
					}
				}
			}
			r.add(okv, key, p.InstrPos(c), "the direction of each order field is assigned in its own loop iteration before it is appended")
			r.add(carried == "", key+"|not-carried", p.InstrPos(c), firstNonEmpty(map[bool]string{true: "the direction stored at " + carried + " is carried over from the previous order field (a field without ASC/DESC must default to ascending, not inherit its neighbour's direction)"}[carried != ""], "no direction value is carried from one order field to the next"))
		})
	}
	r.floor("order-field appends", n, 1)
}

// ---------------- DRAINALL ----------------

func ruleDrainAll(p *Prog, r *Result) {
	ot := p.Named("FinalOrderPlan")
	if ot == nil {
		r.undecided("anchor: FinalOrderPlan not found")
		return
	}
	nPush, nPop := 0, 0
	// helper methods that push exactly one row on every path (and count it): a call to one is a push site
	pushHelper := map[*ssa.Function]bool{}
	helperCounts := map[*ssa.Function]bool{}
	for _, fn := range p.methodsOf(ot) {
		if len(naturalLoops(fn)) > 0 {
			continue
		}
		allInstrs(fn, func(in ssa.Instruction) {
			c, ok := in.(*ssa.Call)
			if !ok || p.calleeName(&c.Call) != "container/heap.Push" {
				return
			}
			all := true
			for _, b := range fn.Blocks {
				if retOf(b) != nil && !(c.Block() == b || c.Block().Dominates(b)) {
					all = false
				}
			}
			if all {
				pushHelper[fn] = true
				allInstrs(fn, func(x ssa.Instruction) {
					if st, ok := x.(*ssa.Store); ok {
						if o, f, d, ok := fieldStoreAdd(st); ok && o == ot && f == "total" {
							if cv, isC := constInt(d); isC && cv == 1 && (st.Block() == c.Block() || c.Block().Dominates(st.Block())) {
								helperCounts[fn] = true
							}
						}
					}
				})
			}
		})
	}
	for _, fn := range p.methodsOf(ot) {
		if pushHelper[fn] {
			continue
		}
		loops := naturalLoops(fn)
		allInstrs(fn, func(in ssa.Instruction) {
			c, ok := in.(*ssa.Call)
			if !ok {
				return
			}
			name := p.calleeName(&c.Call)
			viaHelper := false
			if g := c.Call.StaticCallee(); g != nil && pushHelper[g] {
				name, viaHelper = "container/heap.Push", true
			}
			switch name {
			case "container/heap.Push":
				nPush++
				key := p.FName(fn) + "|push"
				var L *Loop
				for _, l := range loops {
					if l.Body[c.Block()] && (L == nil || len(l.Body) < len(L.Body)) {
						L = l
					}
				}
				if L == nil {
					r.hit(key, p.InstrPos(c), "push is not inside the fetch loop")
					return
				}
				okDom := true
				for _, pr := range L.Header.Preds {
					if L.Body[pr] && !c.Block().Dominates(pr) {
						okDom = false
					}
				}
				// total++ in the same block
				inc := viaHelper && helperCounts[c.Call.StaticCallee()]
				for _, x := range c.Block().Instrs {
					if st, ok := x.(*ssa.Store); ok {
						if o, f, d, ok := fieldStoreAdd(st); ok && o == ot && f == "total" {
							if cv, isC := constInt(d); isC && cv == 1 {
								inc = true
							}
						}
					}
				}
				// pushed value built from the fetched row
				r.add(okDom, key+"|every-row", p.InstrPos(c), "every fetched row is pushed (the push dominates each way back to the loop header)")
				r.add(inc, key+"|count", p.InstrPos(c), "total is incremented once per pushed row")
			case "container/heap.Pop":
				nPop++
				key := p.FName(fn) + "|pop"
				guarded := false
				for _, a := range dominatingAtoms(c.Block()) {
					if a.Op == token.LSS && isFieldLoad(a.X, "FinalOrderPlan", "pos") && isFieldLoad(a.Y, "FinalOrderPlan", "total") {
						guarded = true
					}
				}
				adv := false
				for _, x := range c.Block().Instrs {
					if st, ok := x.(*ssa.Store); ok {
						if o, f, d, ok := fieldStoreAdd(st); ok && o == ot && f == "pos" {
							if cv, isC := constInt(d); isC && cv == 1 {
								adv = true
							}
						}
					}
				}
				r.add(guarded, key+"|guard", p.InstrPos(c), "rows are popped only while pos < total")
				r.add(adv, key+"|advance", p.InstrPos(c), "pos advances once per popped row")
			}
		})
	}
	r.floor("heap pushes in the sort node", nPush, 2)
	r.floor("heap pops in the sort node", nPop, 2)
}

// loopCarried: v is (a merge of) a value that enters the loop header from the previous iteration.
func loopCarried(v ssa.Value, L *Loop) bool {
	seen := map[ssa.Value]bool{}
	var rec func(x ssa.Value) bool
	rec = func(x ssa.Value) bool {
		ph, ok := x.(*ssa.Phi)
		if !ok || seen[x] {
			return false
		}
		seen[x] = true
		if ph.Block() == L.Header {
			return true
		}
		for _, e := range ph.Edges {
			if rec(e) {
				return true
			}
		}
		return false
	}
	return rec(v)
}
