package main

var propTable = map[string]*PropDef{}

func prop(id string, rules []string, explanation, notDecided string) *PropDef {
	pd := &PropDef{ID: id, Rules: rules, Explanation: explanation, NotDecided: notDecided, KeyFilter: map[string]func(string) bool{}}
	propTable[id] = pd
	return pd
}

func init() {
	prop("C13", []string{"MSTOR", "MUTSITE", "PARSEFIRST", "ERRPROP"},
		"Structural necessary conditions of C13, decided for every function, path and call site of the package: MUTSITE (mutating Storage calls exist only inside the three writer plans; the closure of the SELECT builder with all methods of every plan type it can build has none; planning has none; parsing/checking reach no storage call at all), PARSEFIRST (no storage-reaching call before the parse/validate error test succeeded), ERRPROP (every error produced by a storage-reaching call is examined on every path and returned - itself or wrapped - on every failure path, with no further storage-reaching call and no loop continuation).",
		"Nothing structural is left out; 'returns that error' is decided as 'the returned error is data-derived from it'. The caller's Storage implementation is outside the analysis.")
}
