package main

import "strings"

var propTable = map[string]*PropDef{}

func prop(id string, rules []string, explanation, notDecided string) *PropDef {
	pd := &PropDef{ID: id, Rules: rules, Explanation: explanation, NotDecided: notDecided, KeyFilter: map[string]func(string) bool{}}
	propTable[id] = pd
	return pd
}

func init() {
	prop("C13", []string{"MSTOR", "MUTSITE", "PARSEFIRST", "ERRPROP"},
		"Structural necessary conditions of C13, decided for every function, path and call site of the package: MUTSITE (mutating Storage calls exist only inside the three writer plans; the closure of the SELECT builder with all methods of every plan type it can build has none; planning has none; parsing/checking reach no storage call at all), PARSEFIRST (no storage-reaching call before the parse/validate error test succeeded), ERRPROP (every error produced by a storage-reaching call is examined on every path and returned - itself or wrapped - on every failure path, with no further storage-reaching call and no loop continuation).",
		"Nothing structural is left out; 'returns that error' is decided as 'the returned error is data-derived from it'. The caller's Storage implementation is outside the analysis.")
}

func init() {
	prop("C14", []string{"CHILDVISIT", "FUNCREG", "WHEREBOOL", "KWFLAGS", "MUTSITE", "PARSEFIRST"},
		"Structural necessary conditions of C14: CHILDVISIT (every Expression node's Check visits every child and returns the child's error, so a fault is seen at every syntactic position; every statement's Validate reaches Check on each of its expressions and the parser returns the validation error), FUNCREG (the function-call Check consults both registries and the arity), WHEREBOOL (SELECT and DELETE both type-check the WHERE expression and require a Boolean result), KWFLAGS (PUT forbids `value`, REMOVE forbids `key`/`value`, and FieldExpr.Check enforces the flags), MUTSITE(d)+PARSEFIRST (rejection happens before any storage access: parsing/checking reach no storage call; no storage-reaching call precedes the parse/validate error test).",
		"Completeness and soundness of the operand typing rules themselves (accept exactly the well-typed statements; no operand-type error at run time) beyond rule ADMIT are value/type-level facts not decided here.")
	propTable["C14"].KeyFilter["MUTSITE"] = func(k string) bool { return strings.HasPrefix(k, "MUTSITE|d|") }
}

func init() {
	prop("C19", []string{"GLOBALS"},
		"Structural necessary condition of C19 (absence of shared mutable library state): GLOBALS enumerates every package-level variable and shows that no function outside the package initializer and the registration API stores to one, updates or deletes in a map reachable from one, or stores through a shared registry row; NOREFLECT shows the library starts no goroutine and uses no unsafe. Every statement's AST, plan and ExecuteCtx are allocated by its own NewOptimizer/NewExecuteCtx calls, so statements share only read-only tables and the caller's Storage.",
		"'Each returns exactly the result it returns alone' beyond absence of shared written state needs execution under a scheduler; the caller's Storage is out of scope.")
}

func init() {
	propTable["C19"].Rules = []string{"GLOBALS"}
	prop("TMP-PLANS", []string{"FILTERED", "NOROWDROP", "ADJUSTCALL", "MGETSORT", "GETNIL", "BYTESFRESH", "CACHECOPY"}, "temporary grouping while rules are being built", "")
}

func init() {
	prop("TMP-LIMIT", []string{"CONSUMED", "LIMITGATE", "LIMITMAP", "FETCHLOOPEND"}, "temporary grouping while rules are being built", "")
}

func init() {
	prop("TMP-WRITERS", []string{"EXECONCE", "WRITEONCE", "PUTKEYFLOW", "DELKEYS", "RMGUARD", "LIMITWRAP"}, "temporary grouping while rules are being built", "")
}

func init() {
	prop("TMP-OPT", []string{"PLANMAP", "ROUTE", "NARROWONLYKEY", "SELECTMINMAX", "ROLECHAIN", "NOREADAFTEREXIT"}, "temporary grouping while rules are being built", "")
}

func init() {
	prop("TMP-TABLES", []string{"OPMAPS", "PRECTABLE", "ASSOC", "KWTABLE", "OP2TABLE", "POSPROV"}, "temporary grouping while rules are being built", "")
}

func init() {
	prop("TMP-VALUES", []string{"ASSERT", "DIVGUARD", "ARITY", "BODYKIND", "LISTCOVER", "PRIMWIRE"}, "temporary grouping while rules are being built", "")
}

func init() {
	prop("TMP-AGGR", []string{"ASTIMMUT", "AGGRSEM", "CLONEFRESH", "ROWCLONE", "KEYFRAME", "RESULTIDX"}, "temporary grouping while rules are being built", "")
}
