package main

import "strings"

var propTable = map[string]*PropDef{}

func prop(id string, rules []string, explanation, notDecided string) *PropDef {
	pd := &PropDef{ID: id, Rules: rules, Explanation: explanation, NotDecided: notDecided, KeyFilter: map[string]func(string) bool{}}
	propTable[id] = pd
	return pd
}

func keyHas(subs ...string) func(string) bool {
	return func(k string) bool {
		for _, s := range subs {
			if strings.Contains(k, s) {
				return true
			}
		}
		return false
	}
}

func init() {
	prop("C01", []string{"FILTERED", "MGETSORT", "NOROWDROP", "GETNIL", "BYTESFRESH", "DISPATCH", "TWINPRIM", "PRIMWIRE", "OPMAPS", "ASTIMMUT", "ROWINDEX", "EVALBOTH", "STICKYFLAG", "REORDERGUARD", "FOLDKIND", "FOLDERR", "FOLDFLAGS", "ROWCARRY", "OP2TABLE", "PARSEARGS", "IFACEEQ", "ROWALIAS", "ARGFRESH", "ATOMALG", "RANGEALG", "PREFIXALG", "SCANALG", "SHORTBATCH", "REGIONSTICKY", "FOLDRET", "INITFRESH"},
		"Structural necessary conditions of C01, for every access path and both iteration modes: FILTERED (a pair leaves a scan only under the true result of the full filter applied to that same pair), NOROWDROP (no loop over a fetched batch drops already-consumed rows), MGETSORT (point reads are returned in sorted key order), GETNIL (a stored pair with an empty value is a pair), BYTESFRESH (evaluation never appends into memory it did not allocate, so stored values come back unmodified), DISPATCH/TWINPRIM/PRIMWIRE/OPMAPS (each operator the user writes is routed, in both modes, to the Go primitive the documentation names, with the same operator literal and operand order; conversion/string functions reach their documented primitives), ASTIMMUT (evaluation does not mutate the expression tree, so repetitions agree). ROWINDEX/ROWCARRY (a vector operator reads row-dependent operands per row, never from a fixed row of the chunk nor from a value computed for an earlier row and carried along), EVALBOTH (vector operators evaluate both operands), STICKYFLAG with FOLDKIND/FOLDERR/FOLDFLAGS/REORDERGUARD (the predicate that is executed is the predicate that was written: the rewriter's structural side conditions, shared with C04). OP2TABLE(query) (the text that is lexed is the text the caller wrote: literals are not rewritten before parsing). PARSEARGS (numbers are read from text with base 10 / 64 bits everywhere), IFACEEQ (no type-strict interface equality or interface-keyed maps in evaluation code), ROWALIAS (no rewritten object shared by all rows of a chunk), ARGFRESH (function bodies do not write into their inputs). ATOMALG/RANGEALG/PREFIXALG/SCANALG(sound) (the access path chosen for the WHERE clause covers every pair that satisfies it), SHORTBATCH (no scan ends its stream early with an empty batch). REGIONSTICKY(only-at-end, reset) (a scan marks itself finished only where its cursor or region ended, so no later call is cut short). FOLDRET (the folder's `is a literal` flags are constants tied to freshly built literal nodes). INITFRESH (a re-initialised plan scans its region again from the start).",
		"The end-to-end row set needs evaluation of predicates on values; duplicates from repeated/overlapping IN literals and literal-on-the-left comparisons are not structurally decidable (DESIGN.md §6).")
	propTable["C01"].KeyFilter["REGIONSTICKY"] = keyHas("|only-at-end", "|reset", "|fetch", "|loop")
	propTable["C01"].KeyFilter["ATOMALG"] = keyHas("|sound", "|interpretable", "|closed")
	propTable["C01"].KeyFilter["RANGEALG"] = keyHas("|sound", "|interpretable", "|closed")
	propTable["C01"].KeyFilter["PREFIXALG"] = keyHas("|sound", "|interpretable", "|closed")
	propTable["C01"].KeyFilter["SCANALG"] = keyHas("|sound", "|interpretable", "|closed")
	propTable["C01"].KeyFilter["OP2TABLE"] = keyHas("|query|")
	propTable["C01"].KeyFilter["NOROWDROP"] = keyHas("ScanPlan", "MultiGetPlan", "ProjectionPlan")

	prop("C02", []string{"PLANMAP", "ROUTE", "NARROWONLYKEY", "ROLECHAIN", "FILTERED", "RMGUARD", "NOROWDROP", "GETNIL", "RANGEALG", "STICKYFLAG", "PREFIXALG", "SCANALG", "ATOMALG", "SHORTBATCH", "REGIONSTICKY"},
		"Structural necessary conditions of C02: ROUTE (an operator reaches only the region handler its executor semantics justify; anything else is FULL), NARROWONLYKEY (a narrowing region only for atoms on `key`, with bounds taken from the atom's literals), PLANMAP (scan kinds map to the matching plan, ill-formed cases to the full scan, and the access path is not replaced afterwards), ROLECHAIN (start/end/prefix reach Seek and the stop tests in the right roles, inclusive end, nil-guarded), FILTERED (over-approximated regions are harmless because every pair is filtered), RMGUARD (DELETE drops the filter only for pure key sets), NOROWDROP/GETNIL (no consumed row or empty-valued pair is lost on the narrowed paths). STICKYFLAG (an IN list or BETWEEN pair narrows the scan only if every element is a literal; the flag recording that is never set back by a later element). PREFIXALG (the prefix members of the algebra, over all order/prefix structures of the operands: AND keeps every key both operands contain, OR every key of either). SCANALG (the AND/OR combinators themselves over every pair of scan kinds: routing, argument roles and fall-backs). ATOMALG (the atom layer: every operator x operand shape with the literal on either side). SHORTBATCH (batch protocol: a consumer may stop on a short batch only if every producer returns short batches only when exhausted). REGIONSTICKY(only-at-end, reset) (a scan marks itself finished only where its cursor or region ended, so no later call is cut short).",
		"intersectionMget/unionMget (Go maps) are outside the abstract interpreter; combinations deeper than one AND/OR are decided compositionally (each level sound over all operand structures, and the domain is closed: no level yields a range open on both sides).")
	propTable["C02"].KeyFilter["REGIONSTICKY"] = keyHas("|only-at-end", "|reset", "|fetch", "|loop")
	propTable["C02"].KeyFilter["ATOMALG"] = keyHas("|sound", "|interpretable", "|closed")
	propTable["C02"].KeyFilter["SCANALG"] = keyHas("|sound", "|interpretable", "|closed")
	propTable["C02"].KeyFilter["PREFIXALG"] = keyHas("|sound", "|interpretable", "|closed")
	propTable["C02"].KeyFilter["STICKYFLAG"] = keyHas("FilterOptimizer")
	propTable["C02"].KeyFilter["NOROWDROP"] = keyHas("ScanPlan", "MultiGetPlan")

	prop("C03", []string{"NOROWDROP", "CONSUMED", "FETCHLOOPEND", "CACHECOPY", "ADJUSTCALL", "ARITY", "LISTCOVER", "BODYKIND", "ASTIMMUT", "DISPATCH", "TWINPRIM", "LIMITGATE", "ERRPROP", "EVALBOTH", "FRESHROWS", "ROWINDEX", "ROWCARRY", "ADJUSTCOVER", "ROWCACHE", "FILTERED", "IFACEEQ", "ROWALIAS", "SHORTBATCH", "REGIONSTICKY", "LIMITGUARD"},
		"Structural necessary conditions of C03 (agreement of the row and batch twins): DISPATCH/TWINPRIM (both modes route every operator to corresponding helpers reaching the same primitives with the same literals), BODYKIND (row and vector bodies box the same kinds), ARITY (both modes apply both arity tests), LISTCOVER (both modes handle the same list representations), NOROWDROP/CONSUMED/LIMITGATE/FETCHLOOPEND (batch loops neither drop consumed rows, nor emit skipped ones, nor bypass the limit, nor spin), CACHECOPY/ADJUSTCALL/ASTIMMUT (the chunk cache and the tree are not corrupted by in-place vector operators), ERRPROP on both twins of every plan. EVALBOTH (no batch-only short circuit), ROWINDEX/ROWCARRY (no batch-only reuse of row 0 or of an earlier row's operand), FRESHROWS (batch results never alias plan-owned buffers that the next call rewrites). ADJUSTCOVER (no by-position cache entry of the unfiltered chunk survives filtering). ROWCACHE/FILTERED (row mode does not reuse per-row cache entries of another row and returns only filtered pairs, as batch mode does). IFACEEQ/ROWALIAS (no batch-only comparison or sharing shortcut). SHORTBATCH (batch protocol: a consumer may stop on a short batch only if every producer returns short batches only when exhausted). REGIONSTICKY(only-at-end, reset) (a scan marks itself finished only where its cursor or region ended, so no later call is cut short). LIMITGUARD (row mode does not pull a child row beyond a full window).",
		"Equality of computed values and the refill arithmetic beyond these clauses need execution.")
	propTable["C03"].KeyFilter["REGIONSTICKY"] = keyHas("|only-at-end", "|reset", "|fetch", "|loop")

	prop("C04", []string{"FOLDKIND", "FOLDERR", "REORDERGUARD", "FOLDFLAGS", "BODYKIND", "STICKYFLAG", "ASTIMMUT", "ARGFRESH", "PARSEARGS", "ARMTWIN", "FOLDRET"},
		"Structural necessary conditions of C04: FOLDKIND (a folded literal node has the kind of the value it was folded from and is built from the typed value, not from text), FOLDERR (folding happens only when evaluation succeeded), REORDERGUARD (re-association only for + and * chains with the same operator inside and outside), BODYKIND (folded function calls box the kind their registry row declares). STICKYFLAG (a call is folded only if every argument is a literal). ASTIMMUT (a folded constant node is not used as mutable scratch space by the evaluator). ARGFRESH/PARSEARGS (a folded constant is not modified by the functions applied to it; literals are parsed with 64 bits). ARMTWIN (a folded text constant is a string where the unfolded value was []byte: both arms of every text conversion behave alike). FOLDRET (the folder's `is a literal` flags are constants tied to freshly built literal nodes).",
		"Numeric equality of folded and unfolded evaluation and the truth table of the Boolean simplifier need evaluation (DESIGN.md §6).")

	propTable["C04"].KeyFilter["STICKYFLAG"] = keyHas("ExpressionOptimizer")

	prop("C05", []string{"ADJUSTCALL", "CACHECOPY", "ROWCACHE", "CHUNKKEY", "LOCKSTEP", "LISTCOVER", "ASTIMMUT", "FRESHROWS", "ADJUSTCOVER", "EVALBOTH"},
		"Structural necessary conditions of C05: ROWCACHE (no per-row cache entry written for one row can be read for another: every loop feeding different rows to an evaluator through one context clears it per row or passes no context), ADJUSTCALL (the chunk cache is re-indexed by exactly the rows that passed, with a cumulative index), CACHECOPY (cache entries never alias evaluation results), CHUNKKEY (chunk cache keys frame alias name and first key), LOCKSTEP (one column per announced name), LISTCOVER(project) (row-mode projection lets through every column kind). FRESHROWS (returned rows own their storage). ADJUSTCOVER (every cache is emptied by Clear; every per-chunk cache is re-indexed or emptied when the chunk is filtered). EVALBOTH (every chunk appends its alias values to the per-alias column: a vectorised AND/OR that skips its right operand leaves the column one chunk short and every later index shifted).",
		"Equality with the alias-expanded query needs execution.")
	propTable["C05"].KeyFilter["LISTCOVER"] = keyHas("|project|")

	prop("C06", []string{"ASSERT", "ARITY", "DIVGUARD", "BODYKIND", "FETCHLOOPEND", "ADJUSTCALL", "USERIDX", "ERRPROP", "ERRALL", "EVALBOTH", "ADJUSTCOVER"},
		"The panic and non-termination classes whose absence is visible in the shape of the code: ASSERT (no unchecked type assertion without a dominating test or a checked side condition), ARITY (no body is called with fewer arguments than it indexes), DIVGUARD (integer division guarded), USERIDX (slices/indexes driven by user numbers or error offsets are bounded against the sliced value's length and ordered), BODYKIND (the constant folder's assertions are safe), ADJUSTCALL (chunk cache indexes stay in range), FETCHLOOPEND (every fetch loop stops at end of stream), ERRPROP (storage errors are values). EVALBOTH (the chunk cache always holds the current chunk's alias values before the scan re-indexes it). ADJUSTCOVER (a stale per-chunk entry is longer than the filtered chunk: index out of range in the projection).",
		"General index bounds, nil dereference, alias cycles (stack exhaustion) and termination of other loops are runtime quantities (DESIGN.md §6).")

	prop("C07", []string{"ASSERT", "CMPDIR", "ORDERELIDE", "ORDERDEFAULT", "DRAINALL", "MGETSORT", "NOROWDROP", "FRESHROWS", "TWINUSE"},
		"Structural necessary conditions of C07: ASSERT on the comparators (ORDER BY cannot crash on mixed kinds), CMPDIR (each comparator returns -1 exactly on l<r, resp. l>r when reversed, compares integers as integers, and Less maps negative to true with the heap's operand order), ORDERELIDE (the sort is skipped only for a lone `order by key asc` without aggregates, relying on MGETSORT/cursor order), ORDERDEFAULT (each order field gets its own direction, ASC by default), DRAINALL/NOROWDROP (every child row is pushed exactly once and popped while pos < total). FRESHROWS (the sort keeps rows of all child batches: they must own their storage). TWINUSE (the comparator classifies both operands alike: integer-or-float is not decided from the left operand alone).",
		"That the comparator is a total order per type and that heap order equals sorted order need execution.")
	propTable["C07"].KeyFilter["ASSERT"] = keyHas("orderColumnsRow", "FinalOrderPlan")
	propTable["C07"].KeyFilter["NOROWDROP"] = keyHas("FinalOrderPlan")

	prop("C08", []string{"CONSUMED", "LIMITGATE", "LIMITMAP", "NOROWDROP", "LIMITWRAP", "RMGUARD", "FETCHLOOPEND", "SHORTBATCH", "LIMITGUARD"},
		"Structural necessary conditions of C08: LIMITMAP (offset and count are never swapped between the parser and the three consumers), CONSUMED (rows counted as skipped are never emitted; the remaining offset is recomputed per batch; the partial batch continues at batch[remaining:]), NOROWDROP (rows are dropped only on the count condition), LIMITGATE (the pushed-down limit is bypassed only when absent), LIMITWRAP/RMGUARD (DELETE ... LIMIT limits the raw pairs and never takes the key-removal shortcut), FETCHLOOPEND (skipping past the end terminates). SHORTBATCH (batch protocol: a consumer may stop on a short batch only if every producer returns short batches only when exhausted). LIMITGUARD (typestate of the emitted-rows counter: tested below the limit before every emission and, in row mode, before the fetch of the row to emit; the counter is not the position counter).",
		"The count arithmetic over refills is a runtime quantity.")
	propTable["C08"].KeyFilter["RMGUARD"] = keyHas("no-limit")

	prop("C09", []string{"AGGRSEM", "CLONEFRESH", "ROWCLONE", "KEYFRAME", "RESULTIDX", "PRIMWIRE", "ARITY", "ROWCACHE", "REORDERGUARD", "FOLDKIND", "AGGRALLFLAG", "PARSEARGS", "ADJUSTCOVER"},
		"Structural necessary conditions of C09: KEYFRAME (group keys frame their components, so distinct tuples never collide), ROWCLONE/CLONEFRESH (each group owns fresh accumulators), AGGRSEM (count/sum/avg/min/max update and complete according to their definitions, integers compared as integers), RESULTIDX (each aggregate's result is substituted into its own call node), PRIMWIRE (each aggregate name has its own constructor and accumulator type), ARITY (constructors index only guaranteed arguments), ROWCACHE (values cached for one pair are not reused for another while grouping). AGGRALLFLAG (one group for all pairs exactly when there is no GROUP BY), FOLDKIND/REORDERGUARD (arithmetic around aggregates is not rewritten unsoundly). PARSEARGS (the integer image of a textual number comes from ParseInt; ParseFloat is only the fallback). ADJUSTCOVER (no by-position alias column of the unfiltered chunk survives into the evaluation of GROUP BY expressions on the filtered chunk).",
		"The arithmetic of the accumulators on concrete values needs execution.")
	propTable["C09"].KeyFilter["PRIMWIRE"] = keyHas("aggr")
	propTable["C09"].KeyFilter["ROWCACHE"] = keyHas("AggregatePlan")

	prop("C10", []string{"LISTCOVER", "BODYKIND", "PRIMWIRE", "ARITY", "ASTIMMUT", "TWINPRIM", "ERRALL", "ROWINDEX", "FOLDKIND", "FOLDERR", "FOLDFLAGS", "STICKYFLAG", "ROWCARRY", "PARSEARGS", "IFACEEQ", "ROWALIAS", "ARGFRESH", "ARMTWIN", "FOLDRET", "CACHECOPY"},
		"Structural necessary conditions of C10: PRIMWIRE (each documented function is registered under its name and both bodies reach the documented primitive on the text argument, base 10, with the length check for distances; no two names share a body except the documented aliases), BODYKIND (bodies return their declared kinds, identically in both modes), LISTCOVER (every list consumer handles every list representation, in both modes), ARITY, ASTIMMUT (constant arguments behave like row-dependent ones: no state is kept in the tree), TWINPRIM (row and vector bodies reach the same primitives). ROWINDEX/ROWCARRY (vector bodies read row-dependent arguments per row), FOLDKIND/FOLDERR/FOLDFLAGS/STICKYFLAG(call folding) (a call with constant arguments is folded only when all arguments are literals, evaluation succeeded, and to a literal of the returned kind, so constants and row-dependent arguments agree). PARSEARGS, IFACEEQ, ROWALIAS, ARGFRESH (bodies read numbers uniformly, compare numerically, build one fresh result per row and never write into their arguments). ARMTWIN (conversions treat string and []byte text alike). FOLDRET (the folder's `is a literal` flags are constants tied to freshly built literal nodes). CACHECOPY (the cached alias column is handed to the in-place vector bodies as a copy).",
		"The computed values themselves need execution.")

	propTable["C10"].KeyFilter["STICKYFLAG"] = keyHas("ExpressionOptimizer")

	prop("C11", []string{"RMGUARD", "DELKEYS", "MUTSITE", "CHILDVISIT", "LIMITWRAP", "LIMITMAP", "ERRPROP", "NOROWDROP", "CONSUMED", "ARGFRESH", "SHORTBATCH", "REGIONSTICKY", "GETNIL", "LIMITGUARD"},
		"Structural necessary conditions of C11: DELKEYS (BatchDelete receives exactly the keys of the rows fetched in that iteration), MUTSITE(e) (DELETE issues no Put), RMGUARD with CHILDVISIT(Walk) (direct key removal only without LIMIT and without any AND anywhere in the filter; the walk sees every node), LIMITWRAP/LIMITMAP/CONSUMED/NOROWDROP (the limit is applied to the raw pairs, exactly), ERRPROP in execute. ARGFRESH (no function applied in the WHERE clause rewrites the key bytes that are then handed to BatchDelete). SHORTBATCH (batch protocol: a consumer may stop on a short batch only if every producer returns short batches only when exhausted). REGIONSTICKY(only-at-end, reset) (a scan marks itself finished only where its cursor or region ended, so no later call is cut short). GETNIL (a pair with an empty value is present for the scan-and-delete strategy too), LIMITGUARD (DELETE ... LIMIT).",
		"Which keys the filter selects is C01/C02/C08.")
	propTable["C11"].KeyFilter["REGIONSTICKY"] = keyHas("|only-at-end", "|reset", "|fetch", "|loop")
	propTable["C11"].KeyFilter["MUTSITE"] = keyHas("MUTSITE|e|", "MUTSITE|a|")
	propTable["C11"].KeyFilter["CHILDVISIT"] = keyHas("|Walk|")
	propTable["C11"].KeyFilter["ERRPROP"] = keyHas("DeletePlan", "LimitPlan")
	propTable["C11"].KeyFilter["NOROWDROP"] = keyHas("DeletePlan", "(*LimitPlan)")
	propTable["C11"].KeyFilter["CONSUMED"] = keyHas("(*LimitPlan)")
	propTable["C11"].KeyFilter["LIMITMAP"] = keyHas("LimitPlan", "parse|")

	prop("C12", []string{"EXECONCE", "WRITEONCE", "PUTKEYFLOW", "KWFLAGS", "MUTSITE", "CHILDVISIT", "STMTLIST", "ROWCACHE", "RMKEYFLOW", "ERRALL", "ARGFRESH"},
		"Structural necessary conditions of C12: EXECONCE (writes happen only while executed == false, which is set on every path after they start and reset only by Init), WRITEONCE (one storage write per PUT/REMOVE, outside any loop, with every expression evaluated before it), PUTKEYFLOW (each value expression sees its own pair's evaluated key; pairs reach BatchPut in statement order, untouched by any other call), KWFLAGS and CHILDVISIT(Validate) (the static restrictions are wired and every key/value expression is checked), MUTSITE(e) (PUT only puts, REMOVE only deletes). STMTLIST (the write plans receive the statement's own pair/key list: nothing is filtered out, so every pair is evaluated and a failing one fails the statement). ROWCACHE(PutPlan/RemovePlan) (one context is not shared between the pairs of a statement without being cleared, so a value cached for one pair is not seen by the next). RMKEYFLOW (REMOVE deletes the evaluated keys, not text from the syntax tree). ERRALL(PutPlan/RemovePlan) (an error of a key or value expression is returned, not another variable). ARGFRESH (no function writes into its argument: the key expression's bytes are the buffer PUT is about to write).",
		"The store contents after the write depend on the caller's Storage.")
	propTable["C12"].KeyFilter["ERRALL"] = keyHas("PutPlan", "RemovePlan")
	propTable["C12"].KeyFilter["ROWCACHE"] = keyHas("PutPlan", "RemovePlan")
	propTable["C12"].KeyFilter["MUTSITE"] = keyHas("MUTSITE|e|", "MUTSITE|c|")
	propTable["C12"].KeyFilter["CHILDVISIT"] = keyHas("Validate")

	prop("C13", []string{"MSTOR", "MUTSITE", "PARSEFIRST", "ERRPROP", "REJECTFIRST"},
		"Structural necessary conditions of C13, decided for every function, path and call site of the package: MUTSITE (mutating Storage calls exist only inside the three writer plans; the closure of the SELECT builder with all methods of every plan type it can build has none; planning has none; parsing/checking reach no storage call at all), PARSEFIRST (no storage-reaching call before the parse/validate error test succeeded), ERRPROP (every error produced by a storage-reaching call is examined on every path and returned - itself or wrapped - on every failure path, with no further storage-reaching call and no loop continuation). REJECTFIRST (a statement rejected while its plan is built has not reached storage).",
		"Nothing structural is left out; 'returns that error' is decided as 'the returned error is data-derived from it'. The caller's Storage implementation is outside the analysis.")

	prop("C14", []string{"CHILDVISIT", "FUNCREG", "WHEREBOOL", "KWFLAGS", "MUTSITE", "PARSEFIRST", "LISTCOVER", "NOTWRAP", "CACHECOPY", "ADMIT", "ERRALL", "REJECTFIRST", "CHECKROUTE", "ADMITCLASS", "LISTTYPE", "NUMCOMBO", "TWINUSE"},
		"Structural necessary conditions of C14: CHILDVISIT (every Expression node's Check visits every child before any success return and returns the child's error, so a fault is seen at every syntactic position; every statement's Validate reaches Check on each of its expressions and the parser returns the validation error), NOTWRAP (the parser builds a `!` node for every `!` it consumes), FUNCREG (the function-call Check consults both registries and the arity), WHEREBOOL (SELECT and DELETE both type-check the WHERE expression and require a Boolean result), KWFLAGS (PUT forbids `value`, REMOVE forbids `key`/`value`), LISTCOVER(in) (what checkWithIn admits on the right of IN is handled by both executors), MUTSITE(d)+PARSEFIRST (rejection happens before any storage access). REJECTFIRST (while the plan is built, every rejection is produced before the first storage operation, in every function of that phase including each plan's Init). CHECKROUTE (operators sharing an evaluator share a typing rule), ADMITCLASS (an operator is admitted only for the static operand types its evaluator has a case for). LISTTYPE (every IN / BETWEEN element is typed like the left operand). NUMCOMBO (the converse part: number-with-number, which the checker admits, never ends in an operand-type error whichever of the two operands is the integer and which the float). ",
		"Completeness and soundness of the operand typing rules themselves are value/type-level facts not decided here.")
	propTable["C14"].KeyFilter["MUTSITE"] = keyHas("MUTSITE|d|")
	propTable["C14"].KeyFilter["LISTCOVER"] = keyHas("|in|")

	prop("C15", []string{"PRECTABLE", "ASSOC", "OPMAPS", "KWTABLE", "RENDER", "LITDATA"},
		"Structural necessary conditions of C15: PRECTABLE (Token.Precedence realises the documented binding order, equal within a class, all below unary), ASSOC (every right-operand parse, also through the BETWEEN helper, starts at the consumed operator's precedence + 1; the loop stops below the minimum), OPMAPS (operator spellings and operators are mutually inverse, so canonical rendering re-lexes to the same operator), KWTABLE (keywords and operator words are classified after lower-casing the whole word), RENDER (binary nodes render as (left op right) with the canonical spelling, literals render their text verbatim between quotes). LITDATA (literal nodes keep the text they were written with).",
		"The whole-tree print/re-parse fix-point needs parsing.")

	prop("C16", []string{"KWTABLE", "OP2TABLE", "WORDRESET"},
		"Structural necessary conditions of C16: OP2TABLE (every operator/punctuation token carries the text it stands for and its own offset; two-character operators are recognised from the previous character, which is updated on every iteration; the lexer scans the caller's text unchanged), KWTABLE (words are case-folded as a whole and classified by the table), WORDRESET (the pending-word start/length/offset are re-armed consistently by every arm of the scanner).",
		"Byte-for-byte preservation of quoted content and full spacing invariance need execution over strings.")

	prop("C17", []string{"POSPROV", "OP2TABLE", "USERIDX", "WORDRESET", "ERRPURE", "CARETALIGN"},
		"Structural necessary conditions of C17: POSPROV (every position given to an error or stored in a node is -1, 0, a token offset or another node's position, never computed; Token.Pos is written only by the lexer), OP2TABLE (token offsets are offsets into the caller's text), USERIDX (the renderer's window slices are bounded by the rendered text's own length and relate the offset to it). ERRPURE (rendering an error stores nothing into it: a later BindQuery / SetPadding is reflected). CARETALIGN (the caret offset is re-based by exactly what is cut off or put in front of the shown text, on every way the window is chosen; quoted and word tokens report the recorded start offset).",
		"The remaining caret arithmetic (which 70 bytes are chosen, the caller's padding convention) is string arithmetic (DESIGN.md §6).")
	propTable["C17"].KeyFilter["OP2TABLE"] = keyHas("|query|", "|pos")
	propTable["C17"].KeyFilter["USERIDX"] = keyHas("outputQueryAndErrPos", "generatePads")

	prop("C18", []string{"PLANMAP", "MUTSITE", "ROLECHAIN", "REGIONSTICKY", "NARROWONLYKEY", "ROUTE", "RANGEALG", "PREFIXALG", "ERRPROP", "SCANALG", "ATOMALG", "INITFRESH"},
		"Structural necessary conditions of C18: PLANMAP (EMPTY reads nothing, MGET uses point reads only and all keys, PREFIX/RANGE use the matching cursor plan, and the chosen access path is not replaced later), MUTSITE(e) (the point-read plan calls only Get, the empty plan nothing), ROLECHAIN (seek to the region start, stop at the first key beyond the inclusive end / without the prefix), REGIONSTICKY (leaving the region is recorded in the plan and guards every later cursor read, across calls), ROUTE/NARROWONLYKEY (equality and IN produce point regions). PREFIXALG (AND of a prefix with a prefix, range or key set reads nothing when the operands share no key), ERRPROP on the scan plans (a failed Seek or cursor creation is not followed by reads from an unpositioned cursor). SCANALG (AND of any two scan kinds reads nothing when they share no key). ATOMALG (key-pinning atoms read only the pinned region; equality and IN use point reads). INITFRESH (Init always positions a fresh cursor).",
		"That intersection* returns a region inside both operands depends on order relations among literals (DESIGN.md §6).")
	propTable["C18"].KeyFilter["ATOMALG"] = keyHas("|tight", "|interpretable")
	propTable["C18"].KeyFilter["SCANALG"] = keyHas("|tight", "|interpretable")
	propTable["C18"].KeyFilter["PREFIXALG"] = keyHas("|tight", "|interpretable")
	propTable["C18"].KeyFilter["ERRPROP"] = keyHas("ScanPlan", "MultiGetPlan")
	propTable["C18"].KeyFilter["MUTSITE"] = keyHas("MUTSITE|e|")
	propTable["C18"].KeyFilter["RANGEALG"] = keyHas("|tight", "|interpretable")
	propTable["C02"].KeyFilter["RANGEALG"] = keyHas("|sound", "|interpretable", "|closed")

	prop("C19", []string{"GLOBALS", "BYTESFRESH", "ARGFRESH"},
		"Structural necessary condition of C19 (absence of shared mutable library state): GLOBALS enumerates every package-level variable and shows that no function outside the package initializer and the registration API stores to one, updates or deletes in a map reachable from one, passes one by address to a call, or stores through a shared registry row; NOREFLECT shows the library starts no goroutine and uses no unsafe. Every statement's AST, plan and ExecuteCtx are allocated by its own NewOptimizer/NewExecuteCtx calls, so statements share only read-only tables and the caller's Storage. BYTESFRESH/ARGFRESH (evaluation never writes into memory it did not allocate: stored keys and values, cached columns and folded constants are shared between statements).",
		"'Each returns exactly the result it returns alone' beyond absence of shared written state needs execution under a scheduler; the caller's Storage is out of scope.")
}
