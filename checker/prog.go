package main

import (
	"fmt"
	"go/ast"
	"go/token"
	"go/types"
	"os"
	"path/filepath"
	"sort"
	"strings"

	"golang.org/x/tools/go/callgraph"
	"golang.org/x/tools/go/callgraph/cha"
	"golang.org/x/tools/go/callgraph/vta"
	"golang.org/x/tools/go/packages"
	"golang.org/x/tools/go/ssa"
	"golang.org/x/tools/go/ssa/ssautil"
)

// Prog is the resolved program model shared by all rules.
type Prog struct {
	Dir   string
	Fset  *token.FileSet
	Pkg   *packages.Package
	Types *types.Package
	Info  *types.Info
	SSA   *ssa.Program
	SPkg  *ssa.Package
	// Funcs: every function whose body comes from the package source
	// (functions, methods, anonymous functions) plus the package initializer.
	Funcs  []*ssa.Function
	byName map[string]*ssa.Function
	NFiles int
	// Inlined: the local closures replaced by their bodies (normalize.go)
	Inlined []string

	chaG *callgraph.Graph
	vtaG *callgraph.Graph
	// UseVTA selects the graph returned by CG().
	UseVTA bool

	stor *storModel
}

func loadProg(dir string) (*Prog, error) {
	os.Unsetenv("GOWORK")
	cfg := &packages.Config{
		Mode:  packages.LoadAllSyntax,
		Dir:   dir,
		Tests: false,
		Env:   append(os.Environ(), "GOFLAGS=-mod=mod", "GOPROXY=off", "GOSUMDB=off", "GOTOOLCHAIN=local", "GOWORK=off"),
	}
	// first load (types from export data): which local closures can be
	// inlined, see normalize.go
	pre := *cfg
	pre.Mode = packages.LoadSyntax
	prePkgs, err := packages.Load(&pre, ".")
	if err != nil {
		return nil, fmt.Errorf("load: %v", err)
	}
	var plan inlinePlan
	if len(prePkgs) == 1 && len(prePkgs[0].Errors) == 0 && prePkgs[0].TypesInfo != nil {
		plan = planInlining(prePkgs[0])
	}
	if len(plan) > 0 {
		cfg.ParseFile = parseWithInlining(dir, plan)
	}
	pkgs, err := packages.Load(cfg, ".")
	if err != nil {
		return nil, fmt.Errorf("load: %v", err)
	}
	if len(pkgs) != 1 {
		return nil, fmt.Errorf("expected exactly 1 package, got %d", len(pkgs))
	}
	pk := pkgs[0]
	var errs []string
	packages.Visit(pkgs, nil, func(p *packages.Package) {
		for _, e := range p.Errors {
			errs = append(errs, e.Error())
		}
	})
	if len(errs) > 0 {
		return nil, fmt.Errorf("package errors: %s", strings.Join(errs, "; "))
	}
	if pk.Name != "kvql" {
		return nil, fmt.Errorf("package name %q, want kvql", pk.Name)
	}
	if len(pk.Syntax) < 20 {
		return nil, fmt.Errorf("only %d source files loaded (floor 20)", len(pk.Syntax))
	}
	prog, spkgs := ssautil.AllPackages(pkgs, ssa.InstantiateGenerics)
	prog.Build()
	p := &Prog{
		Dir: dir, Fset: pk.Fset, Pkg: pk, Types: pk.Types, Info: pk.TypesInfo,
		SSA: prog, SPkg: spkgs[0], NFiles: len(pk.Syntax),
		byName: map[string]*ssa.Function{},
	}
	for f, m := range plan {
		for pos := range m {
			p.Inlined = append(p.Inlined, fmt.Sprintf("%s:%d", f, pos.Line))
		}
	}
	sort.Strings(p.Inlined)
	if p.SPkg == nil {
		return nil, fmt.Errorf("no SSA package")
	}
	for fn := range ssautil.AllFunctions(prog) {
		if fn.Pkg != p.SPkg {
			continue
		}
		if fn.Synthetic != "" && fn.Name() != "init" {
			continue
		}
		if fn.Blocks == nil {
			continue
		}
		p.Funcs = append(p.Funcs, fn)
	}
	sort.Slice(p.Funcs, func(i, j int) bool { return p.FName(p.Funcs[i]) < p.FName(p.Funcs[j]) })
	for _, fn := range p.Funcs {
		p.byName[p.FName(fn)] = fn
	}
	return p, nil
}

// FName is the package-relative name, e.g. "(*BinaryOpExpr).Execute", "toInt",
// "(*Optimizer).canOptimizeDeletePlanToRemovePlan$1".
func (p *Prog) FName(fn *ssa.Function) string {
	if fn == nil {
		return "<nil>"
	}
	return fn.RelString(p.Types)
}

func (p *Prog) Func(name string) *ssa.Function { return p.byName[name] }

func (p *Prog) Pos(pos token.Pos) string {
	if !pos.IsValid() {
		return "?"
	}
	ps := p.Fset.Position(pos)
	return fmt.Sprintf("%s:%d", filepath.Base(ps.Filename), ps.Line)
}

// InstrPos gives the best position for an instruction (falls back to the block's
// other instructions, then the function).
func (p *Prog) InstrPos(in ssa.Instruction) string {
	if in == nil {
		return "?"
	}
	if in.Pos().IsValid() {
		return p.Pos(in.Pos())
	}
	{
		for _, op := range in.Operands(nil) {
			if *op != nil && (*op).Pos().IsValid() {
				return p.Pos((*op).Pos())
			}
		}
	}
	if b := in.Block(); b != nil {
		for _, x := range b.Instrs {
			if x.Pos().IsValid() {
				return p.Pos(x.Pos())
			}
		}
	}
	if in.Parent() != nil {
		return p.Pos(in.Parent().Pos())
	}
	return "?"
}

func (p *Prog) Named(name string) *types.Named {
	o := p.Types.Scope().Lookup(name)
	if o == nil {
		return nil
	}
	tn, ok := o.(*types.TypeName)
	if !ok {
		return nil
	}
	n, _ := tn.Type().(*types.Named)
	return n
}

func (p *Prog) Iface(name string) *types.Interface {
	n := p.Named(name)
	if n == nil {
		return nil
	}
	i, _ := n.Underlying().(*types.Interface)
	return i
}

// Implementors returns the named struct types T of the package such that *T (or T)
// implements the interface, sorted by name.
func (p *Prog) Implementors(iface *types.Interface) []*types.Named {
	var out []*types.Named
	sc := p.Types.Scope()
	for _, nm := range sc.Names() {
		tn, ok := sc.Lookup(nm).(*types.TypeName)
		if !ok || tn.IsAlias() {
			continue
		}
		n, ok := tn.Type().(*types.Named)
		if !ok {
			continue
		}
		if _, isI := n.Underlying().(*types.Interface); isI {
			continue
		}
		if types.Implements(n, iface) || types.Implements(types.NewPointer(n), iface) {
			out = append(out, n)
		}
	}
	return out
}

// Method returns the SSA function of method m on *T or T.
func (p *Prog) Method(n *types.Named, m string) *ssa.Function {
	for _, t := range []types.Type{types.NewPointer(n), n} {
		ms := p.SSA.MethodSets.MethodSet(t)
		if sel := ms.Lookup(p.Types, m); sel != nil {
			fn := p.SSA.MethodValue(sel)
			if fn != nil && fn.Synthetic != "" {
				// wrapper (e.g. value method promoted to pointer): unwrap to the declared one.
				if obj, ok := sel.Obj().(*types.Func); ok {
					if d := p.SSA.FuncValue(obj); d != nil {
						return d
					}
				}
			}
			return fn
		}
	}
	return nil
}

func (p *Prog) MethodByName(typeName, m string) *ssa.Function {
	n := p.Named(typeName)
	if n == nil {
		return nil
	}
	return p.Method(n, m)
}

func (p *Prog) Global(name string) *ssa.Global {
	m := p.SPkg.Members[name]
	g, _ := m.(*ssa.Global)
	return g
}

func (p *Prog) CHA() *callgraph.Graph {
	if p.chaG == nil {
		p.chaG = cha.CallGraph(p.SSA)
	}
	return p.chaG
}

func (p *Prog) VTA() *callgraph.Graph {
	if p.vtaG == nil {
		p.vtaG = vta.CallGraph(ssautil.AllFunctions(p.SSA), p.CHA())
	}
	return p.vtaG
}

func (p *Prog) CG() *callgraph.Graph {
	if p.UseVTA {
		return p.VTA()
	}
	return p.CHA()
}

// Callees of a call instruction according to the selected call graph.
func (p *Prog) Callees(site ssa.CallInstruction) []*ssa.Function {
	if f := site.Common().StaticCallee(); f != nil {
		return []*ssa.Function{f}
	}
	n := p.CG().Nodes[site.Parent()]
	if n == nil {
		return nil
	}
	var out []*ssa.Function
	seen := map[*ssa.Function]bool{}
	for _, e := range n.Out {
		if e.Site == site && !seen[e.Callee.Func] {
			seen[e.Callee.Func] = true
			out = append(out, e.Callee.Func)
		}
	}
	return out
}

// InPkg reports whether fn's body belongs to the package (including closures).
func (p *Prog) InPkg(fn *ssa.Function) bool {
	return fn != nil && fn.Pkg == p.SPkg
}

// Reach computes the set of functions reachable from roots through the selected call
// graph, optionally stopping at functions for which stop returns true (they are
// included but not expanded).
func (p *Prog) Reach(roots []*ssa.Function, stop func(*ssa.Function) bool) map[*ssa.Function]bool {
	seen := map[*ssa.Function]bool{}
	var work []*ssa.Function
	for _, r := range roots {
		if r != nil && !seen[r] {
			seen[r] = true
			work = append(work, r)
		}
	}
	g := p.CG()
	for len(work) > 0 {
		f := work[len(work)-1]
		work = work[:len(work)-1]
		if stop != nil && stop(f) {
			continue
		}
		n := g.Nodes[f]
		if n == nil {
			continue
		}
		for _, e := range n.Out {
			c := e.Callee.Func
			if !seen[c] {
				seen[c] = true
				work = append(work, c)
			}
		}
		// closures created inside f are reachable when f is (they may be called later
		// through values the graph resolves, but be conservative).
		for _, af := range f.AnonFuncs {
			if !seen[af] {
				seen[af] = true
				work = append(work, af)
			}
		}
	}
	return seen
}

// FuncDecl returns the AST declaration of a source function (nil for closures).
func (p *Prog) FuncDecl(fn *ssa.Function) *ast.FuncDecl {
	if fn == nil {
		return nil
	}
	d, _ := fn.Syntax().(*ast.FuncDecl)
	return d
}

func sortedKeys[M ~map[string]V, V any](m M) []string {
	ks := make([]string, 0, len(m))
	for k := range m {
		ks = append(ks, k)
	}
	sort.Strings(ks)
	return ks
}

func (p *Prog) funcNames(set map[*ssa.Function]bool, onlyPkg bool) []string {
	var out []string
	for f := range set {
		if onlyPkg && !p.InPkg(f) {
			continue
		}
		out = append(out, p.FName(f))
	}
	sort.Strings(out)
	return out
}

// deref returns the pointee of a pointer type, or t itself.
func deref(t types.Type) types.Type {
	if pt, ok := t.Underlying().(*types.Pointer); ok {
		return pt.Elem()
	}
	return t
}

func namedOf(t types.Type) *types.Named {
	t = deref(t)
	n, _ := t.(*types.Named)
	return n
}

func typeName(t types.Type) string {
	if n := namedOf(t); n != nil {
		return n.Obj().Name()
	}
	return t.String()
}

func isErrorType(t types.Type) bool {
	n, ok := t.(*types.Named)
	return ok && n.Obj().Pkg() == nil && n.Obj().Name() == "error"
}
