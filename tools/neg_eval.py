#!/usr/bin/env python3
"""Run every claimed property check against scratch copies with one behaviour-preserving patch applied.
usage: neg_eval.py DIR...   (each DIR holds patch.diff); prints any violation (= false alarm candidate)."""
import json, os, shutil, subprocess, sys, tempfile, glob
V = "/verif"
ENV = dict(os.environ, GOFLAGS="-mod=mod", GOPROXY="off", GOSUMDB="off", GOTOOLCHAIN="local")
ENV.pop("GOWORK", None)
def run(cmd, cwd, env=ENV):
    p = subprocess.run(cmd, cwd=cwd, env=env, stdout=subprocess.PIPE, stderr=subprocess.STDOUT, text=True)
    return p.returncode, p.stdout
rc, lst = run([V + "/bin/kvqlcheck", "-list"], V)
props = [l.split(":")[0] for l in lst.splitlines() if l.strip()]
for d in sys.argv[1:]:
    s = tempfile.mkdtemp(prefix="kvqlneg-")
    try:
        for f in glob.glob("/repo/*.go") + glob.glob("/repo/*.md") + ["/repo/go.mod", "/repo/go.sum"]:
            shutil.copy(f, s)
        rc, out = run(["patch", "-p1", "-s", "-i", os.path.join(d, "patch.diff")], s)
        if rc != 0:
            print("%-10s patch does not apply" % os.path.basename(d)); continue
        rc, out = run(["go", "test", "-vet=off", "-count=1", "."], s)
        if rc != 0:
            print("%-10s suite FAILS with patch" % os.path.basename(d)); continue
        for f in glob.glob(s + "/*_test.go"):
            os.remove(f)
        alarms = []
        for p in props:
            rc, out = run([V + "/bin/kvqlcheck", "-property", p, "-tier", "quick", "-no-evidence", "-json"], V, dict(ENV, KVQL_REPO=s, KVQLCHECK_NO_CONTROLS="1"))
            for l in out.splitlines():
                if l.startswith("JSON-VIOLATIONS: "):
                    for v in json.loads(l[len("JSON-VIOLATIONS: "):]) or []:
                        alarms.append("%s %s %s: %s" % (p, v["key"], v.get("pos", ""), v.get("detail", "")[:200]))
        print("%-10s %s" % (os.path.basename(d), "silent" if not alarms else "ALARMS %d" % len(alarms)))
        seen = set()
        for a in alarms:
            k = a.split(" ", 1)[1]
            if k not in seen:
                seen.add(k); print("      ", a[:300])
    finally:
        shutil.rmtree(s, ignore_errors=True)
