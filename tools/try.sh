#!/bin/bash
# usage: try.sh <seeded-id> <property> [binary]  -- applies the seeded patch to a scratch copy and runs one property on it
id=$1; prop=$2; bin=${3:-/verif/bin/kvqlcheck}
s=$(mktemp -d /tmp/kvqltry-XXXX)
cp /repo/*.go /repo/go.mod /repo/go.sum $s/ && rm -f $s/*_test.go
(cd $s && patch -p1 -s -f -i /verif/seeded/$id/patch.diff) || { echo "patch failed"; rm -rf $s; exit 2; }
KVQL_REPO=$s KVQLCHECK_NO_CONTROLS=1 $bin -property $prop -tier quick -no-evidence | grep -v "^  ok" | cut -c1-260 | head -${4:-6}
rm -rf $s
