#!/usr/bin/env python3
"""Rebase patch files that no longer apply to /repo's HEAD with a 3-way merge (the base blobs named in the
patches' index lines are in /repo's object database). usage: rebase_patches.py [files...] (default: all)"""
import glob, os, subprocess, sys, shutil
files = sys.argv[1:] or sorted(glob.glob('/verif/seeded/*/patch.diff') + glob.glob('/verif/controls/*/*.diff'))
WT = '/tmp/rebase-wt'
def sh(cmd, cwd=None):
    p = subprocess.run(cmd, cwd=cwd, stdout=subprocess.PIPE, stderr=subprocess.STDOUT, text=True, shell=isinstance(cmd, str))
    return p.returncode, p.stdout
subprocess.run(['git', '-C', '/repo', 'worktree', 'remove', '--force', WT], stdout=subprocess.DEVNULL, stderr=subprocess.DEVNULL)
sh(['git', '-C', '/repo', 'worktree', 'add', '-q', '--detach', WT])
ok = rebased = failed = 0
bad = []
for f in files:
    rc, _ = sh(['git', 'apply', '--check', f], WT)
    if rc == 0:
        ok += 1
        continue
    sh('git checkout -q -- . && git clean -fdq', WT)
    rc, out = sh(['git', 'apply', '--3way', f], WT)
    rc2, st = sh(['git', 'status', '--porcelain'], WT)
    conflict = any(l[:2] in ('UU', 'AA', 'DU', 'UD') for l in st.splitlines())
    if rc != 0 or conflict:
        failed += 1
        bad.append(f)
        sh('git reset -q --hard && git clean -fdq', WT)
        continue
    rc, diff = sh('git diff HEAD', WT)
    open(f, 'w').write(diff)
    rebased += 1
    sh('git reset -q --hard && git clean -fdq', WT)
sh(['git', '-C', '/repo', 'worktree', 'remove', '--force', WT])
print("apply cleanly: %d, rebased: %d, failed: %d" % (ok, rebased, failed))
for f in bad:
    print("  FAILED", f)
