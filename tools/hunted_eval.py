#!/usr/bin/env python3
"""Run every demo of /verif/hunted/<id>/ (a test that fails while the defect exists) on a scratch copy of /repo's working tree."""
import glob, os, shutil, subprocess, tempfile, sys
ENV = dict(os.environ, GOFLAGS="-mod=mod", GOPROXY="off", GOSUMDB="off", GOTOOLCHAIN="local")
ENV.pop("GOWORK", None)
ids = sys.argv[1:] or sorted(os.path.basename(d) for d in glob.glob('/verif/hunted/*C[0-9][0-9]-v*'))
for i in ids:
    s = tempfile.mkdtemp(prefix="kvqlhunt-")
    try:
        for f in glob.glob("/repo/*.go") + ["/repo/go.mod", "/repo/go.sum"]:
            shutil.copy(f, s)
        shutil.copy('/verif/hunted/%s/demo_test.go' % i, os.path.join(s, 'zz_demo_test.go'))
        p = subprocess.run(["go", "test", "-vet=off", "-count=1", "-run", "TestViolation", "."], cwd=s, env=ENV, stdout=subprocess.PIPE, stderr=subprocess.STDOUT, timeout=300)
        print("%-8s %s" % (i, "passes (defect gone)" if p.returncode == 0 else "FAILS (defect present)"))
    except subprocess.TimeoutExpired:
        print("%-8s TIMEOUT" % i)
    finally:
        shutil.rmtree(s, ignore_errors=True)
