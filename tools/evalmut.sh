#!/bin/sh
# usage: tools/evalmut.sh <mutant-dir> [properties...]
# Verifies a seeded mutant (patch.diff + demo_test.go) in a scratch copy of /repo's HEAD working
# tree and runs the checker on the patched copy. Prints which properties raise a violation.
export GOFLAGS=-mod=mod GOPROXY=off GOSUMDB=off GOTOOLCHAIN=local; unset GOWORK
M=$(cd "$1" && pwd); shift
S=$(mktemp -d /tmp/kvqlmut-XXXXXX)
trap 'rm -rf "$S"' EXIT
cp /repo/*.go /repo/go.mod /repo/go.sum "$S"/
cd "$S" || exit 2
cp "$M/demo_test.go" zz_demo_test.go
if go test -vet=off -count=1 -run TestDemo . >/dev/null 2>&1; then echo "demo-on-clean: PASS"; else echo "demo-on-clean: FAIL(!)"; fi
if ! patch -p1 -s < "$M/patch.diff"; then echo "PATCH DOES NOT APPLY"; exit 3; fi
if go test -vet=off -count=1 -skip TestDemo . >/dev/null 2>&1; then echo "suite-with-patch: PASS"; else echo "suite-with-patch: FAIL(!)"; fi
if go test -vet=off -count=1 -run TestDemo . >/dev/null 2>&1; then echo "demo-with-patch: PASS(!)"; else echo "demo-with-patch: FAIL (as intended)"; fi
rm -f zz_demo_test.go
PROPS="$*"; [ -z "$PROPS" ] && PROPS=$(/verif/bin/kvqlcheck -list | cut -d: -f1)
for p in $PROPS; do
  out=$(KVQL_REPO="$S" /verif/bin/kvqlcheck -property $p -tier quick -no-evidence 2>&1)
  if echo "$out" | grep -q '^VIOLATION'; then echo "DETECTED by $p:"; echo "$out" | grep -A1 '^VIOLATION' | grep -v '^VIOLATION' | grep -v '^--' | cut -c1-260; fi
done
echo "done $M"
