#!/usr/bin/env python3
"""Generates behaviour-preserving refactorings of /repo (negative controls) as patches under
/verif/controls/neg/ and the index /verif/controls/negative.json. Each variant is compiled and run
against the existing test suite in a scratch copy before it is kept."""
import json, os, re, shutil, subprocess, sys, tempfile, glob

ENV = dict(os.environ, GOFLAGS="-mod=mod", GOPROXY="off", GOSUMDB="off", GOTOOLCHAIN="local")
ENV.pop("GOWORK", None)

def fbody(src, header):
    """(start, end) of the function whose declaration line starts with header."""
    i = src.index(header)
    j = src.find("\nfunc ", i + 1)
    if j < 0:
        j = len(src)
    return i, j

def in_func(src, header, old, new, count=1):
    i, j = fbody(src, header)
    body = src[i:j]
    assert body.count(old) == count, (header, old[:40], body.count(old))
    return src[:i] + body.replace(old, new) + src[j:]

def whole(src, old, new, count=1):
    assert src.count(old) == count, (old[:40], src.count(old))
    return src.replace(old, new)

N = []
def neg(id, props, why, edits):
    N.append((id, props, why, edits))

neg("N01-range-to-index-loop", ["C01", "C02", "C03", "C05", "C06"], "FullScanPlan.Batch: range loop over the match flags rewritten as an index loop, locals renamed",
    [("scan_plan.go", lambda s: in_func(in_func(in_func(s, "func (p *FullScanPlan) Batch", "for i, m := range matchs {\n\t\t\t\tif m {", "for i := 0; i < len(matchs); i++ {\n\t\t\t\tif matchs[i] {"), "func (p *FullScanPlan) Batch", "chooseIdxes", "picked", 4), "func (p *FullScanPlan) Batch", "bidx", "seen", 3))])
neg("N02-range-end-test-swapped", ["C02", "C18", "C01"], "RangeScanPlan.Next: end test written with swapped Compare arguments and nested ifs",
    [("scan_plan.go", lambda s: in_func(s, "func (p *RangeScanPlan) Next", "if p.End != nil && bytes.Compare(key, p.End) > 0 {\n\t\t\tbreak\n\t\t}", "if p.End != nil {\n\t\t\tif bytes.Compare(p.End, key) < 0 {\n\t\t\t\tbreak\n\t\t\t}\n\t\t}"))])
neg("N03-prefix-test-variable", ["C02", "C18", "C01"], "PrefixScanPlan.Next: HasPrefix result bound to a variable and compared with false",
    [("scan_plan.go", lambda s: in_func(s, "func (p *PrefixScanPlan) Next", "if !bytes.HasPrefix(key, pb) {", "if hasPfx := bytes.HasPrefix(key, pb); hasPfx == false {"))])
neg("N04-nil-on-the-left", ["C01", "C02", "C13"], "MultiGetPlan.Next: nil comparison with operands swapped",
    [("scan_plan.go", lambda s: in_func(s, "func (p *MultiGetPlan) Next", "if val == nil {", "if nil == val {"))])
neg("N05-skip-guard-swapped", ["C08", "C03", "C11"], "FinalLimitPlan.Batch / LimitPlan.Batch: skip guard written as restSkips > nrows, variable renamed",
    [("limit_plan.go", lambda s: in_func(in_func(s, "func (p *FinalLimitPlan) Batch", "if nrows < restSkips {", "if restSkips > nrows {"), "func (p *LimitPlan) Batch", "restSkips", "remaining", 4))])
neg("N06-delete-keys-index-form", ["C11", "C13"], "DeletePlan.execute: key collection loop indexes the batch instead of ranging over copies",
    [("delete_plan.go", lambda s: whole(s, "for i, kv := range rows {\n\t\t\tkeys[i] = kv.Key\n\t\t}", "for i := range rows {\n\t\t\tkeys[i] = rows[i].Key\n\t\t}"))])
neg("N07-executed-set-before-write", ["C12", "C13"], "PutPlan.Next: executed flag set before the write starts (same guard, every path)",
    [("put_plan.go", lambda s: in_func(s, "func (p *PutPlan) Next", "n, err := p.execute(ctx)\n\t\tp.executed = true", "p.executed = true\n\t\tn, err := p.execute(ctx)"))])
neg("N08-remove-shortcut-nested-ifs", ["C11", "C08"], "buildDeletePlan: the remove shortcut conditions written as nested ifs in another order",
    [("optimizer.go", lambda s: whole(s, "if mgPlan, ok := fp.(*MultiGetPlan); ok && stmt.Limit == nil {\n\t\t// Only multi get plan and no limit statement can be optimize to remove plan\n\t\tif o.canOptimizeDeletePlanToRemovePlan(mgPlan) {\n\t\t\treturn o.optimizeDeletePlanToRemovePlan(s, mgPlan)\n\t\t}\n\t}", "if stmt.Limit == nil {\n\t\tif mgPlan, ok := fp.(*MultiGetPlan); ok {\n\t\t\tif o.canOptimizeDeletePlanToRemovePlan(mgPlan) {\n\t\t\t\treturn o.optimizeDeletePlanToRemovePlan(s, mgPlan)\n\t\t\t}\n\t\t}\n\t}"))])
neg("N09-guard-returns-negation", ["C11"], "canOptimizeDeletePlanToRemovePlan: returns !hasAndOp instead of if/return",
    [("optimizer.go", lambda s: whole(s, "if hasAndOp {\n\t\treturn false\n\t}\n\treturn true", "return !hasAndOp"))])
neg("N10-or-fallback-comparison-swapped", ["C02", "C18"], "optimizeOrExpr / optimizeAndExpr: scan kind comparison written the other way round",
    [("filter_optimizer.go", lambda s: whole(s, "if lstype.scanTp < rstype.scanTp {", "if rstype.scanTp > lstype.scanTp {", 2))])
neg("N11-key-guard-conjunct-order", ["C02", "C18"], "optimizeEqualExpr: conjuncts of the key guard swapped",
    [("filter_optimizer.go", lambda s: in_func(s, "func (o *FilterOptimizer) optimizeEqualExpr", "if field == KeyKW && key != nil {", "if key != nil && field == KeyKW {"))])
neg("N12-planmap-case-order", ["C02", "C18"], "FilterOptimizer.Optimize: FULL case moved to the top of the switch",
    [("filter_optimizer.go", lambda s: whole(whole(s, "\tcase FULL:\n\t\treturn NewFullScanPlan(o.storage, o.filter)\n\t}\n\t// No match", "\t}\n\t// No match"), "switch stype.scanTp {\n\tcase EMPTY:", "switch stype.scanTp {\n\tcase FULL:\n\t\treturn NewFullScanPlan(o.storage, o.filter)\n\tcase EMPTY:"))])
neg("N13-lexer-case-order", ["C15", "C16"], "buildToken and Token.Precedence: case arms reordered",
    [("lexer.go", lambda s: whole(whole(s, "\tcase \"select\":\n\t\ttoken.Tp = SELECT\n\t\treturn token\n\tcase \"where\":\n\t\ttoken.Tp = WHERE\n\t\treturn token\n", "\tcase \"where\":\n\t\ttoken.Tp = WHERE\n\t\treturn token\n\tcase \"select\":\n\t\ttoken.Tp = SELECT\n\t\treturn token\n"), "\t\tcase \"|\", \"or\":\n\t\t\treturn 1\n\t\tcase \"&\", \"and\":\n\t\t\treturn 2\n", "\t\tcase \"&\", \"and\":\n\t\t\treturn 2\n\t\tcase \"|\", \"or\":\n\t\t\treturn 1\n"))])
neg("N14-lexer-rearm-chained", ["C16", "C17"], "Lexer.Split blank arm: start offset assigned from the start index",
    [("lexer.go", lambda s: whole(s, "\t\t\ttokLen = 0\n\t\t\ttokStartPos = i + 1\n\t\t\ttokStart = i + 1\n\t\tcase '\"', '\\'':", "\t\t\ttokLen = 0\n\t\t\ttokStart = i + 1\n\t\t\ttokStartPos = tokStart\n\t\tcase '\"', '\\'':"))])
neg("N15-and-shortcircuit-eq-false", ["C01", "C03"], "execAnd: `!left` written as `left == false`",
    [("expression_exec.go", lambda s: in_func(s, "func (e *BinaryOpExpr) execAnd", "if !left {", "if left == false {"))])
neg("N16-dispatch-case-order", ["C01", "C03"], "BinaryOpExpr.ExecuteBatch: Eq and NotEq arms swapped in the switch",
    [("expression_exec_vec.go", lambda s: whole(s, "\tcase Eq:\n\t\treturn e.execEqualBatch(chunk, false, ctx)\n\tcase NotEq:\n\t\treturn e.execEqualBatch(chunk, true, ctx)\n", "\tcase NotEq:\n\t\treturn e.execEqualBatch(chunk, true, ctx)\n\tcase Eq:\n\t\treturn e.execEqualBatch(chunk, false, ctx)\n"))])
neg("N17-compare-operands-mirrored", ["C01", "C03"], "execNumberCompare: `lint > rint` written as `rint < lint`",
    [("utils.go", lambda s: in_func(s, "func execNumberCompare", "return lint > rint, nil", "return rint < lint, nil"))])
neg("N18-min-compare-mirrored", ["C09"], "aggrMinFunc.Update: `f.imin > ival` written as `ival < f.imin`",
    [("aggr_func.go", lambda s: in_func(s, "func (f *aggrMinFunc) Update", "if f.imin > ival {", "if ival < f.imin {"))])
neg("N19-compareint-mirrored", ["C07"], "compareInt: ascending branch written with the mirrored comparison and without else",
    [("order_plan.go", lambda s: in_func(s, "func (l *orderColumnsRow) compareInt", "\tif lval < rval {\n\t\treturn -1\n\t} else {\n\t\treturn 1\n\t}\n}", "\tif rval > lval {\n\t\treturn -1\n\t}\n\treturn 1\n}"))])
neg("N20-groupkey-sprintf", ["C09"], "getAggrKey: framing written with fmt.Sprintf",
    [("aggregate_plan.go", lambda s: whole(s, "gkey += strconv.Itoa(len(bval)) + \":\" + string(bval)", "gkey += fmt.Sprintf(\"%d:%s\", len(bval), bval)"))])
neg("N21-renderer-clamp-min", ["C06", "C17"], "outputQueryAndErrPos: upper clamp written with the min builtin",
    [("errors.go", lambda s: whole(s, "\t\tif pos > qlen {\n\t\t\tpos = qlen\n\t\t}\n", "\t\tpos = min(pos, qlen)\n"))])
neg("N22-substr-guard-geq", ["C06"], "funcSubStr: `start > vlen-1` written as `start >= vlen`",
    [("scalar_func.go", lambda s: in_func(s, "func funcSubStr", "if start < 0 || start > vlen-1 {", "if start < 0 || start >= vlen {"))])
neg("N23-chunkkey-concat", ["C05"], "chunk cache key built by concatenation with the same separator in reader and writer",
    [("plan.go", lambda s: whole(whole(s, "ckey := fmt.Sprintf(\"%s-%s\", name, string(key))", "ckey := name + \"-\" + string(key)", 2), "import (\n\t\"fmt\"\n\t\"os\"\n)", "import (\n\t\"os\"\n)"))])
neg("N24-projection-clear-nil-guard", ["C05", "C03"], "ProjectionPlan.Batch: Clear under a nil guard",
    [("projection_plan.go", lambda s: in_func(s, "func (p *ProjectionPlan) Batch", "\tctx.Clear()\n", "\tif ctx != nil {\n\t\tctx.Clear()\n\t}\n"))])
neg("N25-registry-keyed-literal", ["C10", "C01", "C03", "C06"], "funcMap: one row written as a keyed literal",
    [("func.go", lambda s: whole(s, "\"lower\":      &Function{\"lower\", 1, false, TSTR, funcToLower, funcToLowerVec},", "\"lower\":      &Function{Name: \"lower\", NumArgs: 1, VarArgs: false, ReturnType: TSTR, Body: funcToLower, BodyVec: funcToLowerVec},"))])
neg("N26-put-write-switch", ["C12", "C13"], "PutPlan.execute: if/else-if chain over the pair count written as a switch",
    [("put_plan.go", lambda s: whole(s, "\tif nkvps == 0 {\n\t\treturn 0, nil\n\t} else if nkvps == 1 {\n\t\terr := p.Storage.Put(kvps[0].Key, kvps[0].Value)\n\t\tif err != nil {\n\t\t\treturn 0, err\n\t\t}\n\t\treturn 1, nil\n\t} else {\n\t\terr := p.Storage.BatchPut(kvps)\n\t\tif err != nil {\n\t\t\treturn 0, err\n\t\t}\n\t\treturn nkvps, nil\n\t}", "\tswitch nkvps {\n\tcase 0:\n\t\treturn 0, nil\n\tcase 1:\n\t\tif err := p.Storage.Put(kvps[0].Key, kvps[0].Value); err != nil {\n\t\t\treturn 0, err\n\t\t}\n\t\treturn 1, nil\n\tdefault:\n\t\tif err := p.Storage.BatchPut(kvps); err != nil {\n\t\t\treturn 0, err\n\t\t}\n\t\treturn nkvps, nil\n\t}"))])
neg("N27-order-elide-if-form", ["C07"], "buildFinalOrderPlan: type switch written as a comma-ok if with all conditions",
    [("optimizer.go", lambda s: whole(s, "\t\tswitch expr := order.Field.(type) {\n\t\tcase *FieldExpr:\n\t\t\t// If order by key asc just ignore it\n\t\t\tif expr.Field == KeyKW && order.Order == ASC {\n\t\t\t\treturn ffp\n\t\t\t}\n\t\t}", "\t\tif expr, ok := order.Field.(*FieldExpr); ok && expr.Field == KeyKW && order.Order == ASC {\n\t\t\treturn ffp\n\t\t}"))])
neg("N28-precedence-local", ["C15"], "parseBinaryExpr: minimum precedence of the right operand bound to a local first",
    [("parser.go", lambda s: whole(s, "\t\tdefault:\n\t\t\ty, err = p.parseBinaryExpr(nil, oprec+1)\n\t\t}", "\t\tdefault:\n\t\t\tnextPrec := oprec + 1\n\t\t\ty, err = p.parseBinaryExpr(nil, nextPrec)\n\t\t}"))])
neg("N29-reorder-guard-switch", ["C04", "C09"], "tryReorderBinaryOp: operator guard written as a switch",
    [("expression_optimizer.go", lambda s: whole(s, "\tif e.Op != Add && e.Op != Mul {\n\t\treturn\n\t}", "\tswitch e.Op {\n\tcase Add, Mul:\n\tdefault:\n\t\treturn\n\t}"))])
neg("N30-bidx-increment", ["C05", "C06"], "MultiGetPlan.Batch: bidx += 1 written as bidx++",
    [("scan_plan.go", lambda s: in_func(s, "func (p *MultiGetPlan) Batch", "bidx += 1", "bidx++"))])
neg("N31-error-wrap-and-rename", ["C13"], "RangeScanPlan.Batch: cursor error wrapped with %w; ProjectionPlan.Next: err renamed",
    [("scan_plan.go", lambda s: in_func(s, "func (p *RangeScanPlan) Batch", "\t\t\tif err != nil {\n\t\t\t\treturn nil, err\n\t\t\t}\n\t\t\tif key == nil {", "\t\t\tif err != nil {\n\t\t\t\treturn nil, fmt.Errorf(\"range scan: %w\", err)\n\t\t\t}\n\t\t\tif key == nil {")),
     ("projection_plan.go", lambda s: in_func(s, "func (p *ProjectionPlan) Next", "k, v, err := p.ChildPlan.Next(ctx)\n\tif err != nil {\n\t\treturn nil, err\n\t}\n\tif k == nil && v == nil && err == nil {", "k, v, cerr := p.ChildPlan.Next(ctx)\n\tif cerr != nil {\n\t\treturn nil, cerr\n\t}\n\tif k == nil && v == nil {"))])
neg("N32-check-helper-and-loop", ["C14"], "BinaryOpExpr.Check: operand checks moved into a helper looping over a slice literal; ListExpr.Check index loop",
    [("checker.go", lambda s: whole(whole(s, "func (e *BinaryOpExpr) Check(ctx *CheckCtx) error {\n\tif err := e.Left.Check(ctx); err != nil {\n\t\treturn err\n\t}\n\tif err := e.Right.Check(ctx); err != nil {\n\t\treturn err\n\t}", "func (e *BinaryOpExpr) checkOperands(ctx *CheckCtx) error {\n\tfor _, c := range []Expression{e.Left, e.Right} {\n\t\tif err := c.Check(ctx); err != nil {\n\t\t\treturn err\n\t\t}\n\t}\n\treturn nil\n}\n\nfunc (e *BinaryOpExpr) Check(ctx *CheckCtx) error {\n\tif err := e.checkOperands(ctx); err != nil {\n\t\treturn err\n\t}"), "\tfor _, item := range e.List {\n\t\tif err := item.Check(ctx); err != nil {\n\t\t\treturn err\n\t\t}\n\t}\n", "\tfor i := 0; i < len(e.List); i++ {\n\t\tchild := e.List[i]\n\t\tif cerr := child.Check(ctx); cerr != nil {\n\t\t\treturn cerr\n\t\t}\n\t}\n"))])
neg("N33-where-bool-mirrored", ["C14"], "Parse: Boolean test of WHERE written as TBOOL == rt with an empty then-branch",
    [("parser.go", lambda s: whole(s, "\tif expr.ReturnType() != TBOOL {\n\t\treturn nil, NewSyntaxError(expr.GetPos(), \"where statement result type should be boolean\")\n\t}\n", "\tif rt := expr.ReturnType(); TBOOL == rt {\n\t} else {\n\t\treturn nil, NewSyntaxError(expr.GetPos(), \"where statement result type should be boolean\")\n\t}\n"))])
neg("N34-local-regexp-map", ["C19"], "execRegexpMatch: a function-local map added; a new read-only package table",
    [("expression_exec.go", lambda s: whole(s, "\tre, err := regexp.Compile(string(right))\n\tif err != nil {\n\t\treturn false, err\n\t}\n\treturn re.Match(left), nil", "\tlocal := map[string]*regexp.Regexp{}\n\tre, err := regexp.Compile(string(right))\n\tif err != nil {\n\t\treturn false, err\n\t}\n\tlocal[string(right)] = re\n\treturn local[string(right)].Match(left), nil")),
     ("plan.go", lambda s: whole(whole(s, "var (\n\tPlanBatchSize    = 32", "var planKindNames = map[int]string{1: \"scan\", 2: \"mget\"}\n\nvar (\n\tPlanBatchSize    = 32"), "func (p *EmptyResultPlan) String() string {\n\treturn \"EmptyResultPlan\"", "func (p *EmptyResultPlan) String() string {\n\t_ = planKindNames[1]\n\treturn \"EmptyResultPlan\""))])
neg("N35-aggregate-clear-helper", ["C05", "C09"], "AggregatePlan.prepare: per-row Clear written without else-paths via a small closure-free helper call kept inline; emit loop unchanged",
    [("aggregate_plan.go", lambda s: in_func(s, "func (a *AggregatePlan) prepare(", "\t\tif ctx != nil {\n\t\t\tctx.Clear()\n\t\t}\n\t\taggrKey, err := a.getAggrKey(k, v, ctx)", "\t\tif ctx != nil {\n\t\t\tctx.Clear()\n\t\t}\n\t\tkeyBytes, valBytes := k, v\n\t\taggrKey, err := a.getAggrKey(keyBytes, valBytes, ctx)"))])

def main():
    out_dir = "/verif/controls/neg"
    os.makedirs(out_dir, exist_ok=True)
    for f in glob.glob(out_dir + "/*.diff"):
        os.remove(f)
    index = []
    for id, props, why, edits in N:
        tmp = tempfile.mkdtemp(prefix="kvqlneg-")
        try:
            for f in glob.glob("/repo/*.go") + ["/repo/go.mod", "/repo/go.sum"]:
                shutil.copy(f, tmp)
            subprocess.run(["git", "init", "-q"], cwd=tmp); subprocess.run(["git", "add", "-A"], cwd=tmp)
            subprocess.run(["git", "-c", "user.email=x@x", "-c", "user.name=x", "commit", "-qm", "base"], cwd=tmp)
            try:
                for fn, tr in edits:
                    p = os.path.join(tmp, fn)
                    s = open(p).read()
                    open(p, "w").write(tr(s))
            except AssertionError as e:
                print("SKIP (does not apply)", id, e)
                continue
            subprocess.run(["gofmt", "-w"] + [e[0] for e in edits], cwd=tmp)
            r = subprocess.run(["go", "test", "-vet=off", "-count=1", "."], cwd=tmp, env=ENV, stdout=subprocess.PIPE, stderr=subprocess.STDOUT, text=True)
            if r.returncode != 0:
                print("SKIP (tests fail / does not compile)", id, r.stdout[-400:])
                continue
            d = subprocess.run(["git", "diff"], cwd=tmp, stdout=subprocess.PIPE, text=True).stdout
            open(os.path.join(out_dir, id + ".diff"), "w").write(d)
            index.append({"id": "neg-" + id, "rule": "*", "properties": props, "kind": "negative", "patch": "controls/neg/" + id + ".diff", "why": why})
            print("ok", id)
        finally:
            shutil.rmtree(tmp, ignore_errors=True)
    json.dump(index, open("/verif/controls/negative.json", "w"), indent=1)
    print(len(index), "negative controls")
main()
