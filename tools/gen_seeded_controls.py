#!/usr/bin/env python3
"""Regenerate controls/seeded.json from seeded/*/meta.json: one positive patch control per
verified seeded breakage that its own property's check detects (first violation recorded)."""
import json, glob, os
V = "/verif"
out = []
skipped = []
for mp in sorted(glob.glob(V + "/seeded/*/meta.json")):
    m = json.load(open(mp))
    mid, prop = m["id"], m["property"]
    ver = m.get("verified", {})
    if m.get("neutralised_by_fix") or not all(ver.get(k) for k in ("demo_passes_on_unchanged_tree", "patch_applies", "existing_suite_passes_with_patch", "demo_fails_with_patch")):
        skipped.append(mid + " (not a valid breakage on the current tree)")
        continue
    own = [v for v in m.get("violations", []) if v["property"] == prop]
    if not own:
        skipped.append(mid + " (not detected under its own property)")
        continue
    v = own[0]
    out.append({"id": "seeded-" + mid, "rule": v["rule"], "properties": [prop], "kind": "positive",
                "patch": "seeded/%s/patch.diff" % mid, "expect_key": v["key"],
                "why": "independent sub-agent breakage of %s (see seeded/%s/README.md)" % (prop, mid)})
json.dump(out, open(V + "/controls/seeded.json", "w"), indent=1)
print(len(out), "controls;", "skipped:", skipped)
