#!/usr/bin/env python3
"""usage: add_fixed.py PROPERTY KEY COMMIT WHAT FAILING_INPUT"""
import json,sys
prop,key,commit,what,inp=sys.argv[1:6]
d=json.load(open('/verif/known_findings.json'))
d['findings'].append({"property":prop,"key":key,"status":"fixed","commit":commit,"what":"fixed: property=%s %s %s"%(prop,commit,what),"failing_input":inp})
json.dump(d,open('/verif/known_findings.json','w'),indent=1)
