#!/bin/bash
# usage: import_round.sh <round-prefix e.g. R6> <worktree-prefix e.g. /tmp/wt6-> Cxx...
# imports OUT/m1..m3 of each finished sub-agent worktree as seeded/<round>-Cxx-mN, removes the worktree, evaluates in parallel
R=$1; W=$2; shift 2
export GOFLAGS=-mod=mod GOPROXY=off GOSUMDB=off GOTOOLCHAIN=local; unset GOWORK
ids=()
for c in "$@"; do
  for i in 1 2 3; do
    src=$W$c/OUT/m$i
    [ -f $src/patch.diff ] || { echo "missing $src"; continue; }
    id=$R-$c-m$i
    mkdir -p /verif/seeded/$id
    cp $src/patch.diff $src/demo_test.go /verif/seeded/$id/ 2>/dev/null
    [ -f $src/README.md ] && cp $src/README.md /verif/seeded/$id/
    python3 - "$id" "$c" <<'PY'
import json,sys
mid,prop=sys.argv[1:3]
json.dump({"id": mid, "property": prop, "needs_to_manifest": "see README.md", "origin": "independent sub-agent given only the property text and a scratch worktree"}, open("/verif/seeded/%s/meta.json"%mid, "w"), indent=1)
PY
    ids+=($id)
  done
  git -C /repo worktree remove --force $W$c
done
git -C /repo worktree prune
printf "%s\n" "${ids[@]}" | xargs -P 5 -n 1 python3 /verif/tools/seeded_eval.py | grep -v "^      "
