#!/bin/sh
# runs every property (including temporary groupings) on the unchanged tree; prints only problems
cd /verif
for p in $(bin/kvqlcheck -list | cut -d: -f1); do
  out=$(bin/kvqlcheck -property $p -tier quick -no-evidence 2>&1)
  echo "$out" | grep -A1 "^VIOLATION" | grep -v "^--" | grep -v "^VIOLATION" | cut -c1-220
  echo "$out" | tail -1
done
