#!/usr/bin/env python3
"""Evaluate seeded breakages. usage: seeded_eval.py [--import SRC ID PROPERTY NEEDS] | [ids...]
For every /verif/seeded/<id>/ (patch.diff, demo_test.go, README.md): verify in a scratch copy of
/repo's working tree (demo passes clean, suite passes with patch, demo fails with patch), run every
claimed property check against the patched copy, and record the outcome in meta.json."""
import json, os, shutil, subprocess, sys, tempfile, glob, re
V = "/verif"
ENV = dict(os.environ, GOFLAGS="-mod=mod", GOPROXY="off", GOSUMDB="off", GOTOOLCHAIN="local")
ENV.pop("GOWORK", None)

def run(cmd, cwd, env=ENV):
    p = subprocess.run(cmd, cwd=cwd, env=env, stdout=subprocess.PIPE, stderr=subprocess.STDOUT, text=True)
    return p.returncode, p.stdout

def evaluate(mid):
    d = os.path.join(V, "seeded", mid)
    meta_path = os.path.join(d, "meta.json")
    meta = json.load(open(meta_path)) if os.path.exists(meta_path) else {}
    s = tempfile.mkdtemp(prefix="kvqlmut-")
    try:
        for f in glob.glob("/repo/*.go") + ["/repo/go.mod", "/repo/go.sum"]:
            shutil.copy(f, s)
        shutil.copy(os.path.join(d, "demo_test.go"), os.path.join(s, "zz_demo_test.go"))
        rc, _ = run(["go", "test", "-vet=off", "-count=1", "-run", "TestDemo", "."], s)
        demo_clean = rc == 0
        rc, out = run(["patch", "-p1", "-s", "-i", os.path.join(d, "patch.diff")], s)
        applies = rc == 0
        suite = demo_patch_fails = None
        detected, hits, structured = [], [], []
        if applies:
            rc, _ = run(["go", "test", "-vet=off", "-count=1", "-skip", "TestDemo", "."], s)
            suite = rc == 0
            rc, _ = run(["go", "test", "-vet=off", "-count=1", "-run", "TestDemo", "."], s)
            demo_patch_fails = rc != 0
            os.remove(os.path.join(s, "zz_demo_test.go"))
            rc, lst = run([V + "/bin/kvqlcheck", "-list"], V)
            props = [l.split(":")[0] for l in lst.splitlines() if l.strip()]
            for p in props:
                rc, out = run([V + "/bin/kvqlcheck", "-property", p, "-tier", "quick", "-no-evidence", "-json"], V, dict(ENV, KVQL_REPO=s, KVQLCHECK_NO_CONTROLS="1"))
                for l in out.splitlines():
                    if l.startswith("JSON-VIOLATIONS: "):
                        for v in json.loads(l[len("JSON-VIOLATIONS: "):]) or []:
                            if p not in detected:
                                detected.append(p)
                            hits.append(p + ": " + v["kind"] + " " + v["key"] + " " + v.get("pos", "") + ": " + v.get("detail", "")[:240])
                            structured.append({"property": p, "rule": v["rule"], "key": v["key"]})
        meta.update({"id": mid, "verified": {"demo_passes_on_unchanged_tree": demo_clean, "patch_applies": applies,
                     "existing_suite_passes_with_patch": suite, "demo_fails_with_patch": demo_patch_fails},
                     "what_i_ran": "tools/seeded_eval.py: scratch copy of /repo working tree; go test -run TestDemo (clean); patch -p1; go test -skip TestDemo; go test -run TestDemo; bin/kvqlcheck -property <each claimed> -tier quick with KVQL_REPO=<scratch>",
                     "detected_by": detected, "hits": hits, "violations": structured})
        json.dump(meta, open(meta_path, "w"), indent=1)
        ok = demo_clean and applies and suite and demo_patch_fails
        print("%-14s prop=%s valid=%s detected_by=%s" % (mid, meta.get("property"), ok, ",".join(detected) or "-"))
        for h in hits[:4]:
            print("     ", h[:220])
    finally:
        shutil.rmtree(s, ignore_errors=True)

def main():
    a = sys.argv[1:]
    if a and a[0] == "--import":
        src, mid, prop, needs = a[1:5]
        d = os.path.join(V, "seeded", mid)
        os.makedirs(d, exist_ok=True)
        for f in ("patch.diff", "demo_test.go", "README.md"):
            if os.path.exists(os.path.join(src, f)):
                shutil.copy(os.path.join(src, f), d)
        json.dump({"id": mid, "property": prop, "needs_to_manifest": needs, "origin": "independent sub-agent given only the property text and a scratch worktree"}, open(os.path.join(d, "meta.json"), "w"), indent=1)
        evaluate(mid)
        return
    ids = a or sorted(os.listdir(os.path.join(V, "seeded")))
    for mid in ids:
        if os.path.isdir(os.path.join(V, "seeded", mid)):
            evaluate(mid)
main()
