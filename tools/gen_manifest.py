#!/usr/bin/env python3
"""Regenerates /verif/MANIFEST.json from the table below (kept in one place so the
claimed / not_applicable lists never drift apart)."""
import json, os
V = os.path.dirname(os.path.dirname(os.path.abspath(__file__)))
NOTE = ("Trusted: go/types, go/ssa and the CHA/VTA/own-RTA call graphs of x/tools v0.29.0; calls visible to the call graph "
        "(no unsafe, no goroutines, reflect read-only: asserted on every run); frozen specification tables in the checker. "
        "Decides only the structural clauses named in the evidence (coverage.explanation); value-level behaviour is not decided.")
CLAIMED = {
 "C13": ("Static decision, over every function, path and call site of the package as loaded, of the structural necessary conditions of C13: no mutating storage call outside the three writer plans or reachable from a SELECT plan, from planning, or from parsing/checking; no storage-reaching call before the parse/validate error test; every storage error is examined on every path and returned on every failure path with no further storage call. Universally quantified over stores, fault positions and iteration modes because it is a fact about the code's shape, which the sampled tests cannot give.",
         "call-graph effect analysis (mutating-site confinement, RTA closure) + SSA path/dominance analysis of error propagation", "DESIGN.md §4.1, §5 C13"),
 "C14": ("Static decision of the structural necessary conditions of C14 for every expression node kind and statement form: each Check visits every child and propagates its error (fault seen at every syntactic position), statements validate every expression, WHERE is checked and required Boolean in SELECT and DELETE, keyword restrictions are wired for PUT/REMOVE, function-call Check consults registry and arity (known finding), and rejection precedes any storage access.",
         "type-structure driven visitor-completeness check + SSA dominance/path analysis + call-graph reachability", "DESIGN.md §4.2, §5 C14"),
}
NA = {}
props = [json.loads(l) for l in open(os.path.join(V, "properties.jsonl"))]
checks = []
for p in props:
    pid = p["id"]
    if pid in CLAIMED:
        text, tech, ref = CLAIMED[pid]
        checks.append({"property_id": pid, "quick_cmd": "./check.sh %s quick" % pid, "thorough_cmd": "./check.sh %s thorough" % pid,
                       "evidence_file": "/verif/evidence/%s.json" % pid, "replay_cmd_template": "bin/kvqlcheck -explain {path}",
                       "engine": "kvqlcheck", "level_claimed": {"category": "other", "text": text, "design_ref": ref},
                       "level_note": NOTE, "technique": "static analysis: " + tech})
na = []
for p in props:
    pid = p["id"]
    if pid not in CLAIMED:
        na.append({"property_id": pid, "reason": NA.get(pid, "check not built yet in this revision (design in DESIGN.md §5); will be claimed through static structural rules or declined with a reason")})
m = {"version": 1,
     "setup_cmd": "cd /verif/checker && GOFLAGS=-mod=mod GOPROXY=off GOSUMDB=off GOTOOLCHAIN=local go build -o /verif/bin/kvqlcheck .",
     "hooks": {"guard": "verif", "enable": "none needed: static analysis reads /repo's sources; no hooks or instrumentation exist in /repo",
               "baseline_off_cmd": "cd /repo && go test -vet=off -count=1 ./...", "source_commits": [], "add_only": True},
     "engines": [{"name": "kvqlcheck", "path": "/verif/checker", "serves_properties": sorted(CLAIMED),
                  "kind_free_text": "repository-specific static analyser (go/packages, go/types, go/ssa, call graphs); never executes kvql"}],
     "checks": checks,
     "notes": "All claims are level 'other': structural necessary conditions decided statically for all paths; see DESIGN.md. Thorough tier re-decides call-graph rules on VTA and runs the control corpus (/verif/controls) on scratch copies.",
     "not_applicable": na}
json.dump(m, open(os.path.join(V, "MANIFEST.json"), "w"), indent=1)
print("claimed:", sorted(CLAIMED), "n/a:", len(na))
