#!/usr/bin/env python3
"""Regenerates /verif/MANIFEST.json from the table below (kept in one place so the
claimed / not_applicable lists never drift apart)."""
import json, os
V = os.path.dirname(os.path.dirname(os.path.abspath(__file__)))
NOTE = ("Trusted: go/types, go/ssa and the CHA/VTA/own-RTA call graphs of x/tools v0.29.0; calls visible to the call graph "
        "(no unsafe, no goroutines, reflect read-only: asserted on every run); frozen specification tables in the checker. "
        "Decides only the structural clauses named in the evidence (coverage.explanation); value-level behaviour is not decided.")
GEN = ("Static decision, over every function, path and call site of the package as loaded from /repo's working tree, of structural "
       "necessary conditions of the property (listed with their rules in the evidence file's coverage.explanation). Because these are facts "
       "about the shape of the code they hold for all inputs, stores, batch sizes, fault positions and schedules at once, which the sampled "
       "tests cannot give; value-level behaviour is explicitly not decided (coverage.not_decided). ")
CLAIMED = {
 "C01": ("Decides: pairs leave a scan only through the full filter on that pair; no consumed row is dropped; point reads sorted; empty values are pairs; operators routed to their documented primitives identically in both modes.", "dominance/control-dependence analysis on SSA, loop-exit classification, operator dispatch table extraction by constant propagation, call-graph primitive wiring", "DESIGN.md §5 C01"),
 "C02": ("Decides: operator-to-region routing, key-only narrowing from literals, OR fall-back to the wider operand, scan-kind to plan mapping without later substitution, start/end/prefix role chain with inclusive nil-guarded end.", "constant-propagation walk of the optimizer's dispatch, dominance analysis, field/argument role flow", "DESIGN.md §5 C02"),
 "C03": ("Decides: twin agreement of operator dispatch, boxed kinds, arity tests and list representations; batch loops drop no consumed rows, emit no skipped rows, terminate; chunk cache never aliases results.", "twin extraction + comparison over SSA, loop and path analysis", "DESIGN.md §5 C03"),
 "C04": ("Decides: folded literals keep the kind of the value they were folded from and are built from the typed value; folding only on success; re-association only for + and * with equal inner operator.", "SSA value-provenance and dominance analysis of the expression optimizer", "DESIGN.md §5 C04"),
 "C05": ("Decides: chunk cache re-indexed by exactly the rows that passed with a cumulative index; cache entries never alias results; per-row cache cleared between rows; one column per announced name.", "typestate/loop analysis of the alias caches on SSA", "DESIGN.md §5 C05"),
 "C06": ("Decides the crash classes visible in the code's shape: unchecked type assertions, arity before body calls, integer division guards, user-number-driven slices, chunk-cache indexes, fetch-loop termination.", "dominance analysis of assertion/arity/division/slice guards, path analysis, loop-exit analysis", "DESIGN.md §5 C06"),
 "C07": ("Decides: comparators cannot crash on mixed kinds and have the documented direction; sort elided only for a lone `order by key asc`; every child row pushed once; default direction per field.", "dominance analysis, comparator direction extraction, loop analysis", "DESIGN.md §5 C07"),
 "C08": ("Decides: offset/count never swapped from parser to plans; skipped rows never emitted; remaining offset recomputed per batch; rows dropped only on the count condition; pushed-down limit bypassed only when absent; DELETE LIMIT wraps the scan.", "field-flow, guard-strictness and loop-exit analysis on SSA", "DESIGN.md §5 C08"),
 "C09": ("Decides: framed group keys, fresh cloned accumulators per group, accumulator update/complete shapes for count/sum/avg/min/max, per-call result substitution, one constructor and type per aggregate name.", "SSA shape analysis of accumulators, clone freshness, registry extraction", "DESIGN.md §5 C09"),
 "C10": ("Decides: each documented function registered under its name with both bodies reaching the documented primitive; declared result kinds; every list consumer covers every list representation in both modes.", "registry extraction from the initializer, call-graph wiring, boxed-kind inference, type-switch coverage", "DESIGN.md §5 C10"),
 "C11": ("Decides: BatchDelete gets exactly the fetched rows' keys; DELETE never puts; key-removal shortcut only without LIMIT and without any AND (walk sees every node); LIMIT wraps the scan.", "value-flow, dominance and callback analysis on SSA; effect confinement", "DESIGN.md §5 C11"),
 "C12": ("Decides: writes only while not executed, flag set on every path, one write per statement after all evaluation, value sees its own evaluated key, pairs written in statement order, keyword restrictions wired.", "typestate of the executed flag, reachability-after-write, value flow", "DESIGN.md §5 C12"),
 "C13": ("Decides: no mutating storage call outside the writer plans or reachable from SELECT, planning or parsing/checking; no storage call before the parse error test; every storage error examined and returned on every failure path with no further storage call.", "call-graph effect analysis (mutating-site confinement, RTA closure) + SSA path/dominance analysis of error propagation", "DESIGN.md §5 C13"),
 "C14": ("Decides: each Check visits every child before succeeding and returns its error; statements validate every expression; WHERE checked and Boolean in SELECT and DELETE; keyword flags wired; registry/arity lookup at check time (known finding); rejection precedes storage access.", "type-structure driven visitor-completeness check + SSA dominance/path analysis + call-graph reachability", "DESIGN.md §5 C14"),
 "C15": ("Decides: precedence table equals the documented order; left associativity of every operand parse incl. BETWEEN; operator spelling maps mutually inverse; keywords case-folded as whole words.", "table extraction by constant propagation, symbolic offset of the precedence argument across helpers", "DESIGN.md §5 C15"),
 "C16": ("Decides: operator/punctuation tokens carry their text and offset; two-character operators keyed on an always-updated previous character; lexer scans the caller's text unchanged; word classification table.", "SSA analysis of token literals and loop-carried scanner state", "DESIGN.md §5 C16"),
 "C17": ("Decides: every error/node position is -1, 0 or a copied token/node offset with no arithmetic; Token.Pos written only by the lexer over the caller's text.", "inter-procedural provenance analysis of position values", "DESIGN.md §5 C17"),
 "C18": ("Decides: EMPTY reads nothing, MGET uses only Get on all keys, prefix/range plans seek to the start and stop at the inclusive end, no cursor read after leaving the region, AND falls back to the narrower operand, access path never replaced.", "plan classification by storage effects, role-chain flow, loop-flag constant propagation", "DESIGN.md §5 C18"),
 "C19": ("Decides: no statement-path function writes any package-level variable, registry map or shared registry row, or passes one by address; no goroutines, no unsafe.", "whole-package effect analysis of package-level state", "DESIGN.md §5 C19"),
}
CLAIMED = {k: (GEN + v[0], v[1], v[2]) for k, v in CLAIMED.items()}
NA = {}
props = [json.loads(l) for l in open(os.path.join(V, "properties.jsonl"))]
checks = []
for p in props:
    pid = p["id"]
    if pid in CLAIMED:
        text, tech, ref = CLAIMED[pid]
        checks.append({"property_id": pid, "quick_cmd": "./check.sh %s quick" % pid, "thorough_cmd": "./check.sh %s thorough" % pid,
                       "evidence_file": "/verif/evidence/%s.json" % pid, "replay_cmd_template": "bin/kvqlcheck -explain {path}",
                       "engine": "kvqlcheck", "level_claimed": {"category": "other", "text": text, "design_ref": ref},
                       "level_note": NOTE, "technique": "static analysis: " + tech})
na = []
for p in props:
    pid = p["id"]
    if pid not in CLAIMED:
        na.append({"property_id": pid, "reason": NA.get(pid, "check not built yet in this revision (design in DESIGN.md §5); will be claimed through static structural rules or declined with a reason")})
m = {"version": 1,
     "setup_cmd": "cd /verif/checker && GOFLAGS=-mod=mod GOPROXY=off GOSUMDB=off GOTOOLCHAIN=local go build -o /verif/bin/kvqlcheck .",
     "hooks": {"guard": "verif", "enable": "none needed: static analysis reads /repo's sources; no hooks or instrumentation exist in /repo",
               "baseline_off_cmd": "cd /repo && go test -vet=off -count=1 ./...", "source_commits": [], "add_only": True},
     "engines": [{"name": "kvqlcheck", "path": "/verif/checker", "serves_properties": sorted(CLAIMED),
                  "kind_free_text": "repository-specific static analyser (go/packages, go/types, go/ssa, call graphs); never executes kvql"}],
     "checks": checks,
     "notes": "All claims are level 'other': structural necessary conditions decided statically for all paths; see DESIGN.md. Thorough tier re-decides call-graph rules on VTA and runs the control corpus (/verif/controls) on scratch copies.",
     "not_applicable": na}
json.dump(m, open(os.path.join(V, "MANIFEST.json"), "w"), indent=1)
print("claimed:", sorted(CLAIMED), "n/a:", len(na))
